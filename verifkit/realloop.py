"""Run a compiled program on the REAL asyncio loop with real executors (C17)."""
import asyncio
import concurrent.futures
import os
import sys
import threading
import time

from verifkit import runtime as R


class CountingExecutor(concurrent.futures.Executor):
    """delegates to a real executor and counts outstanding futures (for the exact stuck verdict)"""

    _shutdown = False
    _shutdown_thread = False

    def __init__(self, inner):
        self.inner = inner
        self.outstanding = 0
        self.lock = threading.Lock()

    def submit(self, fn, *a, **kw):
        f = self.inner.submit(fn, *a, **kw)
        with self.lock:
            self.outstanding += 1

        def done(_):
            with self.lock:
                self.outstanding -= 1

        f.add_done_callback(done)
        return f

    def shutdown(self, wait=True, **kw):
        self.inner.shutdown(wait=wait, **kw)


class _Mgr:
    def shutdown(self):
        pass


def run_real(comp, chart, variant, timeout=30.0, trace_file=None, use_registry=None):
    """returns dict(status=done|stuck|timeout, outcome=..., rec=RunRec, elapsed)"""
    from multiprocessing import get_context

    from ml_pipeline_engine.parallelism import process_pool_registry
    from ml_pipeline_engine.parallelism import threads_pool_registry

    sys.modules[comp.module.__name__] = comp.module
    rec = R.RunRec('r0', comp.program, variant, loop=None, rec_start_of=comp.rec_start_of)
    rec.file = trace_file
    R.CURRENT = rec
    saved = (threads_pool_registry._pool_executor, process_pool_registry._pool_executor,
             process_pool_registry._process_manager)
    tpool = ppool = None
    if use_registry is None:
        tpool = CountingExecutor(concurrent.futures.ThreadPoolExecutor(4))
        ppool = CountingExecutor(concurrent.futures.ProcessPoolExecutor(2, mp_context=get_context('fork')))
        threads_pool_registry._pool_executor = tpool
        process_pool_registry._pool_executor = ppool
        process_pool_registry._process_manager = _Mgr()
    loop = asyncio.new_event_loop()
    res = {'rec': rec}
    t0 = time.time()
    try:
        async def wrapper():
            R.RUN.set(rec)
            return await chart.run(pipeline_id='pid-real', input_kwargs={'x': variant.get('x', 0), 'tag': 'r0'})

        main = loop.create_task(wrapper())
        state = {'verdict': None}
        stop = threading.Event()

        def watchdog():
            quiet = 0
            deadline = time.time() + timeout
            while not stop.is_set():
                time.sleep(0.05)
                if main.done():
                    return
                out = (tpool.outstanding if tpool else 0) + (ppool.outstanding if ppool else 0)
                idle = out == 0 and len(loop._ready) == 0 and len(loop._scheduled) == 0
                quiet = quiet + 1 if idle else 0
                if quiet >= 6 and tpool is not None:
                    state['verdict'] = 'stuck'
                    loop.call_soon_threadsafe(loop.stop)
                    return
                if time.time() > deadline:
                    state['verdict'] = 'timeout'
                    loop.call_soon_threadsafe(loop.stop)
                    return

        th = threading.Thread(target=watchdog, daemon=True)
        th.start()
        try:
            loop.run_until_complete(main)
        except RuntimeError:
            pass  # loop stopped by the watchdog
        except BaseException as e:  # noqa: BLE001
            res['raised'] = e
        stop.set()
        th.join(2)
        if main.done():
            res['status'] = 'done'
            if main.cancelled():
                res['outcome'] = ('cancelled',)
            elif main.exception() is not None:
                res['outcome'] = ('raised', main.exception())
            else:
                r = main.result()
                res['outcome'] = ('error', r.error, r.value) if r.error is not None else ('value', r.value)
        else:
            res['status'] = state['verdict'] or 'timeout'
            res['outcome'] = ('pending',)
            main.cancel()
            try:
                loop.run_until_complete(asyncio.gather(main, return_exceptions=True))
            except BaseException:  # noqa: BLE001
                pass
    finally:
        res['elapsed'] = time.time() - t0
        try:
            pending = [t for t in asyncio.all_tasks(loop) if not t.done()]
            for t in pending:
                t.cancel()
            if pending:
                loop.run_until_complete(asyncio.gather(*pending, return_exceptions=True))
        except BaseException:  # noqa: BLE001
            pass
        loop.close()
        if tpool is not None:
            tpool.shutdown(wait=True)
            ppool.shutdown(wait=True)
            (threads_pool_registry._pool_executor, process_pool_registry._pool_executor,
             process_pool_registry._process_manager) = saved
        R.CURRENT = None
        sys.modules.pop(comp.module.__name__, None)
    if trace_file and os.path.exists(trace_file):
        with open(trace_file) as f:
            res['worker_bodies'] = [l.strip() for l in f if l.strip()]
    else:
        res['worker_bodies'] = []
    return res


# ---------------------------------------------------------------------------------------------------------------------
# real threads: rendezvous of sibling bodies with an exact (state-based, not time-based) deadlock verdict
class Rendezvous:
    """every body of `group` registers itself and then waits - WITHOUT a timeout - until all of them are inside their
    bodies at the same time. Coroutine members wait on an asyncio.Event, thread-pool members on a threading.Event."""

    def __init__(self, group, loop):
        self.group = set(group)
        self.loop = loop
        self.entered = []
        self.lock = threading.Lock()
        self.tev = threading.Event()
        self.aev = asyncio.Event()
        self.released_by_watchdog = False

    def _register(self, nid):
        with self.lock:
            if nid not in self.entered:
                self.entered.append(nid)
            return set(self.entered) >= self.group

    def release(self):
        self.tev.set()
        self.loop.call_soon_threadsafe(self.aev.set)

    def enter_sync(self, nid):
        if self._register(nid):
            self.release()
        self.tev.wait()

    async def enter_async(self, nid):
        if self._register(nid):
            self.release()
        await self.aev.wait()


def _thread_states(skip_tid):
    """{tid: (state, voluntary switches, involuntary switches)} of every thread of this process except `skip_tid`"""
    out = {}
    for tid in os.listdir('/proc/self/task'):
        if int(tid) == skip_tid:
            continue
        try:
            with open(f'/proc/self/task/{tid}/stat') as f:
                st = f.read().rsplit(')', 1)[1].split()[0]
            vol = invol = None
            with open(f'/proc/self/task/{tid}/status') as f:
                for line in f:
                    if line.startswith('voluntary_ctxt_switches'):
                        vol = int(line.split()[1])
                    elif line.startswith('nonvoluntary_ctxt_switches'):
                        invol = int(line.split()[1])
            out[tid] = (st, vol, invol)
        except OSError:
            out[tid] = ('gone', None, None)
    return out


def run_rendezvous(comp, chart, variant, group, budget=60.0):
    """Run on the real loop with a real ThreadPoolExecutor; the bodies of `group` rendezvous.
    status: done        - the run completed (all members were in flight together)
            serialised  - PROCESS QUIESCENT with the run pending: every thread of the process (loop thread, pool
                          workers) is asleep and none of them was scheduled at all during 8 consecutive samples, the
                          loop has no timer and no ready callback. Nothing can wake anything up any more: the members
                          that did not enter can only be waiting for those that did. This is a state-based verdict;
                          the sampling period only bounds how long it takes to reach it.
            inconclusive - wall budget exhausted without either (never reported as a violation)"""
    from ml_pipeline_engine.parallelism import process_pool_registry
    from ml_pipeline_engine.parallelism import threads_pool_registry

    sys.modules[comp.module.__name__] = comp.module
    rec = R.RunRec('r0', comp.program, variant, loop=None, rec_start_of=comp.rec_start_of)
    R.CURRENT = rec
    saved = (threads_pool_registry._pool_executor, process_pool_registry._pool_executor,
             process_pool_registry._process_manager)
    tpool = concurrent.futures.ThreadPoolExecutor(max(4, len(group) + 2))
    threads_pool_registry._pool_executor = tpool
    loop = asyncio.new_event_loop()
    rv = Rendezvous(group, loop)
    rec.rendezvous = rv
    res = {'rec': rec, 'status': None}
    stop = threading.Event()
    try:
        async def wrapper():
            R.RUN.set(rec)
            return await chart.run(pipeline_id='pid-rv', input_kwargs={'x': variant.get('x', 0), 'tag': 'r0'})

        main = loop.create_task(wrapper())

        def watchdog():
            me = threading.get_native_id()
            deadline = time.time() + budget
            prev = None
            quiet = 0
            while not stop.is_set():
                time.sleep(0.03)
                if main.done():
                    return
                cur = _thread_states(me)
                idle_loop = len(loop._ready) == 0 and len(loop._scheduled) == 0
                asleep = all(v[0] == 'S' for v in cur.values())
                quiet = quiet + 1 if (idle_loop and asleep and prev is not None and cur == prev) else 0
                prev = cur
                if quiet >= 8:
                    res['status'] = 'serialised'
                    res['entered'] = list(rv.entered)
                    rv.released_by_watchdog = True
                    rv.release()
                    return
                if time.time() > deadline:
                    res['status'] = 'inconclusive'
                    rv.released_by_watchdog = True
                    rv.release()
                    return

        th = threading.Thread(target=watchdog, daemon=True)
        th.start()
        try:
            loop.run_until_complete(main)
        except BaseException as e:  # noqa: BLE001
            res['raised'] = e
        stop.set()
        th.join(5)
        if res['status'] is None:
            res['status'] = 'done'
        res['entered'] = res.get('entered') or list(rv.entered)
        if main.done() and not main.cancelled() and main.exception() is None:
            r = main.result()
            res['outcome'] = ('error', r.error, r.value) if r.error is not None else ('value', r.value)
        else:
            res['outcome'] = ('other',)
    finally:
        stop.set()
        rv.release()
        try:
            pending = [t for t in asyncio.all_tasks(loop) if not t.done()]
            for t in pending:
                t.cancel()
            if pending:
                loop.run_until_complete(asyncio.gather(*pending, return_exceptions=True))
        except BaseException:  # noqa: BLE001
            pass
        loop.close()
        tpool.shutdown(wait=True)
        (threads_pool_registry._pool_executor, process_pool_registry._pool_executor,
         process_pool_registry._process_manager) = saved
        R.CURRENT = None
        sys.modules.pop(comp.module.__name__, None)
    return res
