"""Run a compiled program on the REAL asyncio loop with real executors (C17)."""
import asyncio
import concurrent.futures
import os
import sys
import threading
import time

from verifkit import runtime as R


class CountingExecutor(concurrent.futures.Executor):
    """delegates to a real executor and counts outstanding futures (for the exact stuck verdict)"""

    _shutdown = False
    _shutdown_thread = False

    def __init__(self, inner):
        self.inner = inner
        self.outstanding = 0
        self.lock = threading.Lock()

    def submit(self, fn, *a, **kw):
        f = self.inner.submit(fn, *a, **kw)
        with self.lock:
            self.outstanding += 1

        def done(_):
            with self.lock:
                self.outstanding -= 1

        f.add_done_callback(done)
        return f

    def shutdown(self, wait=True, **kw):
        self.inner.shutdown(wait=wait, **kw)


class _Mgr:
    def shutdown(self):
        pass


def run_real(comp, chart, variant, timeout=30.0, trace_file=None, use_registry=None):
    """returns dict(status=done|stuck|timeout, outcome=..., rec=RunRec, elapsed)"""
    from multiprocessing import get_context

    from ml_pipeline_engine.parallelism import process_pool_registry
    from ml_pipeline_engine.parallelism import threads_pool_registry

    sys.modules[comp.module.__name__] = comp.module
    rec = R.RunRec('r0', comp.program, variant, loop=None, rec_start_of=comp.rec_start_of)
    rec.file = trace_file
    R.CURRENT = rec
    saved = (threads_pool_registry._pool_executor, process_pool_registry._pool_executor,
             process_pool_registry._process_manager)
    tpool = ppool = None
    if use_registry is None:
        tpool = CountingExecutor(concurrent.futures.ThreadPoolExecutor(4))
        ppool = CountingExecutor(concurrent.futures.ProcessPoolExecutor(2, mp_context=get_context('fork')))
        threads_pool_registry._pool_executor = tpool
        process_pool_registry._pool_executor = ppool
        process_pool_registry._process_manager = _Mgr()
    loop = asyncio.new_event_loop()
    res = {'rec': rec}
    t0 = time.time()
    try:
        async def wrapper():
            R.RUN.set(rec)
            return await chart.run(pipeline_id='pid-real', input_kwargs={'x': variant.get('x', 0), 'tag': 'r0'})

        main = loop.create_task(wrapper())
        state = {'verdict': None}
        stop = threading.Event()

        def watchdog():
            quiet = 0
            deadline = time.time() + timeout
            while not stop.is_set():
                time.sleep(0.05)
                if main.done():
                    return
                out = (tpool.outstanding if tpool else 0) + (ppool.outstanding if ppool else 0)
                idle = out == 0 and len(loop._ready) == 0 and len(loop._scheduled) == 0
                quiet = quiet + 1 if idle else 0
                if quiet >= 6 and tpool is not None:
                    state['verdict'] = 'stuck'
                    loop.call_soon_threadsafe(loop.stop)
                    return
                if time.time() > deadline:
                    state['verdict'] = 'timeout'
                    loop.call_soon_threadsafe(loop.stop)
                    return

        th = threading.Thread(target=watchdog, daemon=True)
        th.start()
        try:
            loop.run_until_complete(main)
        except RuntimeError:
            pass  # loop stopped by the watchdog
        except BaseException as e:  # noqa: BLE001
            res['raised'] = e
        stop.set()
        th.join(2)
        if main.done():
            res['status'] = 'done'
            if main.cancelled():
                res['outcome'] = ('cancelled',)
            elif main.exception() is not None:
                res['outcome'] = ('raised', main.exception())
            else:
                r = main.result()
                res['outcome'] = ('error', r.error, r.value) if r.error is not None else ('value', r.value)
        else:
            res['status'] = state['verdict'] or 'timeout'
            res['outcome'] = ('pending',)
            main.cancel()
            try:
                loop.run_until_complete(asyncio.gather(main, return_exceptions=True))
            except BaseException:  # noqa: BLE001
                pass
    finally:
        res['elapsed'] = time.time() - t0
        try:
            pending = [t for t in asyncio.all_tasks(loop) if not t.done()]
            for t in pending:
                t.cancel()
            if pending:
                loop.run_until_complete(asyncio.gather(*pending, return_exceptions=True))
        except BaseException:  # noqa: BLE001
            pass
        loop.close()
        if tpool is not None:
            tpool.shutdown(wait=True)
            ppool.shutdown(wait=True)
            (threads_pool_registry._pool_executor, process_pool_registry._pool_executor,
             process_pool_registry._process_manager) = saved
        R.CURRENT = None
        sys.modules.pop(comp.module.__name__, None)
    if trace_file and os.path.exists(trace_file):
        with open(trace_file) as f:
            res['worker_bodies'] = [l.strip() for l in f if l.strip()]
    else:
        res['worker_bodies'] = []
    return res
