"""Schedule-owning virtual event loop.

CPython's own BaseEventLoop._run_once / ready FIFO / timer heap / Task / Condition / Event / sleep are kept.
Only the selector and the clock are virtual: `select(timeout)` is the point where a real loop learns about
the outside world; here it asks a *chooser* which outstanding external completion (gate, fake-executor
result) is delivered next or whether the virtual clock advances to the next timer.  If the loop would
block and there is no option while a main task is pending, that is an exact deadlock verdict for this
schedule.
"""
import asyncio
import concurrent.futures
from asyncio import base_events


class Deadlock(Exception):
    pass


class StepLimit(Exception):
    pass


class Quiescent(Exception):
    """All main tasks are done and the loop would block (post phase finished)."""


class _Selector:
    def __init__(self, loop):
        self.loop = loop

    def select(self, timeout):
        self.loop._on_select(timeout)
        return []

    def close(self):
        pass


# ----------------------------------------------------------------------------------------------
# choosers


class IndexTape:
    """choice k of n options is tape[i] % n, 0 after the tape ends (0 = continue / oldest first)."""

    kind = 'index'

    def __init__(self, tape=()):
        self.tape = list(tape)
        self.pos = 0
        self.log = []  # (n_options, chosen)

    def draw(self, n):
        if n <= 1:
            return 0
        c = self.tape[self.pos] % n if self.pos < len(self.tape) else 0
        self.pos += 1
        self.log.append((n, c))
        return c

    def choose(self, loop, blocking):
        """returns list of actions: ints (index into loop.pending at the time of the action) or 'timer'."""
        while True:
            npend = len(loop.pending)
            timer = loop.has_future_timer()
            if blocking:
                n = npend + (1 if timer else 0)
                if n == 0:
                    return False
                c = self.draw(n)
                blocking = False
                if c < npend:
                    loop.fire(c)
                else:
                    loop.advance_clock()
                continue
            n = 1 + npend + (1 if timer else 0)
            if n == 1:
                return True
            c = self.draw(n)
            if c == 0:
                return True
            if c - 1 < npend:
                loop.fire(c - 1)
            else:
                loop.advance_clock()


class RankChooser:
    """PCT-style: deliver only when the loop would block; lowest rank first. ranks: key -> number, where key is
    the node id of the completion label (or 'timer'). Unknown keys get rank `default`; ties: oldest first."""

    kind = 'rank'

    def __init__(self, ranks=None, default=50, timer_rank=50):
        self.ranks = dict(ranks or {})
        self.default = default
        self.timer_rank = self.ranks.get('timer', timer_rank)
        self.log = []

    def _rank(self, label):
        key = label[2] if isinstance(label, tuple) and len(label) > 2 else label
        if isinstance(label, tuple) and label[0] in ('ev', 'save'):
            # completions of collaborator calls (event callbacks, store saves) form their own priority class
            return self.ranks.get(f'{label[0]}:{key}', self.default)
        return self.ranks.get(key, self.default)

    def choose(self, loop, blocking):
        if not blocking:
            return True
        best = None
        for i, (label, _) in enumerate(loop.pending):
            r = self._rank(label)
            if best is None or r < best[0]:
                best = (r, i)
        timer = loop.has_future_timer()
        if best is None and not timer:
            return False
        if best is None or (timer and self.timer_rank < best[0]):
            self.log.append(('timer',))
            loop.advance_clock()
        else:
            self.log.append(('fire', best[1]))
            loop.fire(best[1])
        return True


class DelayChooser:
    """one priority change point (PCT with d=1): every completion of node `node` is withheld until `after` other
    deliveries (completions or clock advances) have happened, or nothing else can happen; everything else is
    delivered oldest first and only when the loop would block. Reaches 'X completes exactly inside this window'
    schedules that random tapes hit with tiny probability."""

    kind = 'delay'

    WHAT = {'body': ('gate', 'exec'), 'ev': ('ev',), 'save': ('save',), 'collab': ('ev', 'save'),
            'any': ('gate', 'exec', 'ev', 'save')}

    def __init__(self, node, after, what='body'):
        self.node = node
        self.after = after
        self.kinds = self.WHAT[what]   # which completions of the node are withheld: its body, or the event
        self.count = 0                 # callbacks / artifact saves that collaborators run on its behalf
        self.log = []

    def _held(self, label):
        if not (isinstance(label, tuple) and len(label) > 2):
            return False
        if label[0] in ('ev', 'save'):
            if label[0] not in self.kinds:
                return False
        elif 'gate' not in self.kinds:
            return False
        who = label[2]
        return who == self.node or (isinstance(who, str) and who.endswith('__' + self.node))

    def choose(self, loop, blocking):
        if not blocking:
            return True
        held = None
        for i, (label, _) in enumerate(loop.pending):
            is_held = self._held(label)
            if is_held and self.count < self.after:
                if held is None:
                    held = i
                continue
            self.count += 1
            self.log.append(('fire', i))
            loop.fire(i)
            return True
        if loop.has_future_timer():
            self.count += 1
            self.log.append(('timer',))
            loop.advance_clock()
            return True
        if held is not None:
            self.count = self.after  # nothing else can happen: release
            self.log.append(('fire', held))
            loop.fire(held)
            return True
        return False


class HoldChooser:
    """Withholds completions whose label satisfies `held(label)` until nothing else can happen; then calls
    on_quiescent(loop) which may change the hold predicate (return True to go on) or stop (return False)."""

    kind = 'hold'

    def __init__(self, held, on_quiescent):
        self.held = held
        self.on_quiescent = on_quiescent
        self.log = []

    def choose(self, loop, blocking):
        if not blocking:
            return True
        while True:
            for i, (label, _) in enumerate(loop.pending):
                if not self.held(label):
                    loop.fire(i)
                    return True
            if loop.has_future_timer():
                loop.advance_clock()
                return True
            if not loop.pending:
                return False
            if not self.on_quiescent(loop):
                raise Quiescent()


# ----------------------------------------------------------------------------------------------


class VirtualLoop(base_events.BaseEventLoop):
    def __init__(self, chooser=None, max_iters=20000):
        super().__init__()
        self._selector = _Selector(self)
        self._vtime = 0.0
        self._clock_resolution = 1e-9
        self.chooser = chooser or IndexTape()
        self.pending = []  # external completions: (label, fire callable)
        self.iters = 0
        self.max_iters = max_iters
        self.mains = []  # main tasks; when all are done the loop enters the post phase
        self.post_phase = False
        self.post_start_iter = None
        self.on_post_phase = None  # callback when the post phase starts
        self.at_iter = {}  # iteration number -> callable (e.g. cancel injection)
        self.fire_log = []  # labels in delivery order, ('time', t) for clock advances
        self.fire_seq = []  # parallel to fire_log: global sequence numbers (if seq_fn is set)
        self.seq_fn = None
        self.max_outstanding = 0
        self.created_tasks = []
        self.unhandled = []  # contexts passed to the loop exception handler
        self.set_task_factory(self._factory)
        self.set_exception_handler(self._exc_handler)

    # --- bookkeeping
    def _factory(self, loop, coro, **kw):
        t = asyncio.Task(coro, loop=loop, **kw)
        self.created_tasks.append(t)
        return t

    def _exc_handler(self, loop, context):
        self.unhandled.append({k: repr(v) for k, v in context.items()})

    # --- BaseEventLoop plumbing
    def time(self):
        return self._vtime

    def _process_events(self, event_list):
        pass

    def _write_to_self(self):
        pass

    # --- external completions
    def add_external(self, label, fire):
        self.pending.append((label, fire))
        if len(self.pending) > self.max_outstanding:
            self.max_outstanding = len(self.pending)

    def fire(self, idx):
        label, fire = self.pending.pop(idx)
        self.fire_log.append(label)
        self.fire_seq.append(self.seq_fn() if self.seq_fn else 0)
        fire()

    def has_future_timer(self):
        # cancelled handles are removed from the head by _run_once before select is called
        for h in self._scheduled:
            if not h._cancelled and h._when > self._vtime:
                return True
        return False

    def advance_clock(self):
        whens = [h._when for h in self._scheduled if not h._cancelled and h._when > self._vtime]
        if whens:
            self._vtime = min(whens)
            self.fire_log.append(('time', self._vtime))
            self.fire_seq.append(self.seq_fn() if self.seq_fn else 0)

    # --- the selector
    def _on_select(self, timeout):
        self.iters += 1
        if self.iters > self.max_iters:
            raise StepLimit()
        hook = self.at_iter.pop(self.iters, None)
        if hook is not None:
            hook()
            if timeout != 0 and self._ready:
                timeout = 0
        if self.mains and all(m.done() for m in self.mains):
            if not self.post_phase:
                self.post_phase = True
                self.post_start_iter = self.iters
                if self.on_post_phase:
                    self.on_post_phase()
            # post phase: nothing is delivered and the clock does not move
            if timeout == 0:
                return
            raise Quiescent()
        blocking = timeout != 0
        ok = self.chooser.choose(self, blocking)
        if blocking and not ok:
            raise Deadlock()

    def drive(self):
        """Run until every main task is done and the loop is quiescent. Returns status string."""
        try:
            self.run_forever()
        except Quiescent:
            return 'done' if self.mains and all(m.done() for m in self.mains) else 'stopped'
        except Deadlock:
            return 'deadlock'
        except StepLimit:
            return 'steplimit'
        return 'stopped'

    def shutdown_case(self):
        """Cancel everything that is left and step (no deliveries) until the tasks are gone; close."""
        self.pending.clear()
        self.post_phase = True
        if not self.mains:
            self.mains = [self.create_future()]
            self.mains[0].set_result(None)
        self.max_iters = self.iters + 2000
        for _ in range(20):
            alive = [t for t in asyncio.all_tasks(self) if not t.done()]
            if not alive:
                break
            for t in alive:
                t.cancel()
            try:
                self.run_forever()
            except (Quiescent, Deadlock, StepLimit):
                pass
            except BaseException:  # noqa: BLE001 - a body raising a BaseException during teardown
                pass
        self.close()


class Gate:
    """awaitable external completion"""

    def __init__(self, loop, label):
        self.fut = loop.create_future()

        def fire():
            if not self.fut.done():
                self.fut.set_result(None)

        loop.add_external(label, fire)

    def __await__(self):
        return self.fut.__await__()


class FakeExecutor(concurrent.futures.Executor):
    """Runs fn at submit time (the body has *started*, as on a free worker); the outcome is parked in a RUNNING
    concurrent Future and handed to the scheduler as an external completion."""

    _shutdown = False
    _shutdown_thread = False

    def __init__(self, loop, kind, labeler=None):
        self.loop = loop
        self.kind = kind
        self.labeler = labeler
        self.submitted = 0

    def submit(self, fn, *a, **kw):
        self.submitted += 1
        f = concurrent.futures.Future()
        f.set_running_or_notify_cancel()
        pre = self.labeler(self.kind, fn, None) if self.labeler else None
        try:
            res = (True, fn(*a, **kw))
        except BaseException as e:  # noqa: BLE001
            res = (False, e)
        # the label names the node whose body ran inside fn (taken from the trace, not from the shape of fn: the
        # engine is free to wrap the node's method)
        label = self.labeler(self.kind, fn, pre) if self.labeler else (self.kind, None, repr(fn), self.submitted)

        def fire():
            if res[0]:
                f.set_result(res[1])
            else:
                f.set_exception(res[1])

        self.loop.add_external(label, fire)
        return f

    def shutdown(self, wait=True, **kw):
        pass
