"""Known findings: structural / reference-level predicates over (program, variant) and the repairs that keep
generated cases out of those regions (`clean` profile).  The catalogue itself is /verif/known_findings.json
(never written at run time).

sanitize(program, variant) -> (program', variant', applied)   applied = list of finding ids whose shape was
removed (counted as excluded_by_construction in evidence).
"""
import copy
import json
import os

from verifkit import VERIF
from verifkit import spec as S

FINDINGS_FILE = os.path.join(VERIF, 'known_findings.json')


def load_findings():
    with open(FINDINGS_FILE) as f:
        return json.load(f)


# ----------------------------------------------------------------------------------------------
# scopes: the sub-pipelines the engine builds lazily


def strict_sources(program, nid, idx=None):
    """nodes `nid` needs unconditionally: Input sources, switch nodes, recurrent destinations, implicit input"""
    idx = idx or S.node_index(program)
    n = idx[nid]
    out = []
    for _, m in n['params']:
        if m[0] == 'in':
            out.append(m[1])
        elif m[0] == 'sw':
            out.append(m[2])
        elif m[0] == 'rec':
            out.append(m[2])
    if not n['params'] and nid != S.input_id(program):
        out.append(S.input_id(program))
    # every scope starts at the input node
    return out


def strict_closure(program, nid, idx=None):
    idx = idx or S.node_index(program)
    seen = {nid}
    st = [nid]
    while st:
        x = st.pop()
        for s in strict_sources(program, x, idx):
            if s not in seen:
                seen.add(s)
                st.append(s)
    seen.add(S.input_id(program))
    return seen


def scopes(program):
    """scope name -> set of nodes in it. 'main', ('cand', c), ('case', k)"""
    idx = S.node_index(program)
    reach = S.reachable(program)
    out = {'main': strict_closure(program, program['output'], idx)}
    for n in program['nodes']:
        if n['id'] not in reach:
            continue
        for _, m in n['params']:
            if m[0] == 'oneof':
                for c in m[1]:
                    out[('cand', c)] = strict_closure(program, c, idx)
            elif m[0] == 'sw':
                for _, k in m[3]:
                    out[('case', k)] = strict_closure(program, k, idx)
    return out


# ----------------------------------------------------------------------------------------------
# structural predicates


def f20_rec_start_in_several_scopes(program):
    """recurrent subgraphs whose start node belongs to more than one lazily built scope"""
    sc = scopes(program)
    reach = S.reachable(program)
    bad = []
    for consumer, kw, m in S.rec_marks(program):
        if consumer not in reach:
            continue
        start = m[1]
        k = sum(1 for nodes in sc.values() if start in nodes)
        if k > 1:
            bad.append((consumer, kw, m))
    return bad


def f13_parallel_dependencies(program):
    bad = []
    for n in program['nodes']:
        seen = set()
        for kw, m in n['params']:
            for s in S.mark_sources(m):
                if s in seen:
                    bad.append((n['id'], kw, s))
                seen.add(s)
    return bad


def f6_outside_reader(program):
    """a node outside a recurrent subgraph reads a node inside it (other than the destination)"""
    g = S.deps_graph(program)
    cons = S.consumers(program)
    bad = []
    for consumer, kw, m in S.rec_marks(program):
        path = S.rec_path_nodes(program, m[1], m[2], g)
        for pn in path:
            if pn == m[2]:
                continue
            for c, _, _, _ in cons[pn]:
                if c not in path:
                    bad.append((m[1], m[2], pn, c))
    return bad


def f8_lazy_inside_recurrent(program):
    g = S.deps_graph(program)
    idx = S.node_index(program)
    bad = []
    for consumer, kw, m in S.rec_marks(program):
        path = S.rec_path_nodes(program, m[1], m[2], g)
        for pn in path:
            for _, pm in idx[pn]['params']:
                if pm[0] in ('sw', 'oneof'):
                    bad.append((m[1], m[2], pn))
    return bad


def f7_overlapping_recurrent(program):
    g = S.deps_graph(program)
    recs = []
    for consumer, kw, m in S.rec_marks(program):
        key = (m[1], m[2])
        if key not in [r[0] for r in recs]:
            recs.append((key, S.rec_path_nodes(program, m[1], m[2], g)))
    bad = []
    for i, (k1, p1) in enumerate(recs):
        for k2, p2 in recs[i + 1:]:
            inter = p1 & p2
            if not inter:
                continue
            nested = (p1 <= p2 and k2[0] not in p1) or (p2 <= p1 and k1[0] not in p2)
            if not nested:
                bad.append((k1, k2))
    return bad


STRUCTURAL = {
    'F6': f6_outside_reader,
    'F7': f7_overlapping_recurrent,
    'F8': f8_lazy_inside_recurrent,
    'F13': f13_parallel_dependencies,
    'F20': f20_rec_start_in_several_scopes,
}


def structural_hits(program):
    return {fid for fid, pred in STRUCTURAL.items() if pred(program)}


# ----------------------------------------------------------------------------------------------
# repairs


def _demote_rec(program, variant, consumer, kw, m):
    """turn a recurrent mark into a plain Input of the destination"""
    idx = S.node_index(program)
    start, dest = m[1], m[2]
    for n in program['nodes']:
        for p in n['params']:
            if p[1][0] == 'rec' and p[1][2] == dest:
                p[1] = ['in', dest]
    idx[dest]['rec_dest'] = False
    if not any(mm[1] == start for _, _, mm in S.rec_marks(program)):
        idx[start]['additional_data'] = False
    beh = variant.get('nodes', {}).get(dest)
    if beh and 'rec_n' in beh:
        del beh['rec_n']
        if not beh:
            del variant['nodes'][dest]


# Findings whose shape is removed from generated cases by repair (the others in the catalogue are avoided by
# construction inside gen._try_rec / gen.programs). F9 and F20 were repaired in /repo ("fix:" commits), so their
# repairs are kept only as tools and are not active.
ACTIVE_SANITIZERS = ()


def sanitize(program, variant, active=None):
    from verifkit import ref as REF

    active = ACTIVE_SANITIZERS if active is None else active
    if not active:
        return program, variant, []
    program = copy.deepcopy(program)
    variant = copy.deepcopy(variant)
    applied = []
    if 'F20' in active:
        for _ in range(20):
            bad = f20_rec_start_in_several_scopes(program)
            if not bad:
                break
            _demote_rec(program, variant, *bad[0])
            applied.append('F20')
    if 'F9' in active:
        for _ in range(30):
            r = REF.Reference(program, variant)
            r.run()
            if not r.flags:
                break
            fid, hints = sorted(r.flags.items())[0]
            consumer, kw = sorted(hints)[0]
            _demote_switch(program, consumer, kw)
            applied.append(fid)
    return program, variant, applied


def _demote_switch(program, consumer, kw):
    """replace a switch mark by a plain Input (of the switch node or a case not yet used by the consumer)"""
    idx = S.node_index(program)
    n = idx[consumer]
    used = set()
    for k, m in n['params']:
        if k != kw:
            used.update(S.mark_sources(m))
    for i, (k, m) in enumerate(n['params']):
        if k != kw:
            continue
        cands = [m[2]] + [c for _, c in m[3]]
        repl = [c for c in cands if c not in used and not idx[c].get('rec_dest')]
        if repl:
            n['params'][i] = [k, ['in', repl[0]]]
        else:
            del n['params'][i]
        return
