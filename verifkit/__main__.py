import sys

import verifkit

verifkit.ensure_engine()

from verifkit import driver  # noqa: E402
from verifkit.checks import all_checks  # noqa: E402

if __name__ == '__main__':
    sys.exit(driver.main(sys.argv[1:], all_checks()))
