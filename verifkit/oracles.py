"""Oracles over observations. Every function returns a list of violations: (symptom, detail)."""
import asyncio

from verifkit import runtime as R
from verifkit import spec as S
from verifkit.ref import engine_kwargs


def classify_error(exc, o):
    """map an exception reported/raised by the engine to a reference cause tuple"""
    from ml_pipeline_engine.dag.errors import BaseDagError
    from ml_pipeline_engine.dag.errors import OneOfDoesNotHaveResultError
    from ml_pipeline_engine.dag.errors import RecurrentSubgraphDoesNotHaveResultError

    for nid, inv, e in o.raised:
        if e is exc:
            return ('fatal', nid, inv) if isinstance(e, R.Fatal) else ('node', nid, inv)
    c = o.compiled
    if isinstance(exc, OneOfDoesNotHaveResultError):
        sid = exc.args[0] if exc.args else ''
        try:
            head, consumer = sid.split('___', 1)
            idx = int(head.rsplit('__', 1)[1].rstrip('_'))
            consumer = c.to_spec_id(consumer)
            kw = c.program and S.node_index(c.program)[consumer]['params'][idx][0]
            return ('oneof', consumer, kw)
        except Exception:  # noqa: BLE001
            return ('oneof', sid, None)
    if isinstance(exc, RecurrentSubgraphDoesNotHaveResultError):
        d = exc.args[0] if exc.args and isinstance(exc.args[0], dict) else {}
        return ('rec', c.to_spec_id(d.get('node_id')))
    if isinstance(exc, BaseDagError):
        return ('switch', type(exc).__name__)
    if isinstance(exc, R.CollabErr):
        return ('collab', str(exc))
    if isinstance(exc, asyncio.CancelledError):
        return ('artefact', 'CancelledError')
    return ('artefact', type(exc).__name__)


def cause_admissible(cause, refres):
    for rc in refres['causes']:
        if rc == cause:
            return True
        if rc[0] == 'switch' and cause[0] == 'switch':
            return True
    return False


def oracle_termination(o):
    if o.status == 'deadlock':
        return [('deadlock', f'loop idle after {o.iters} iterations, run pending; parked={o.leftovers}')]
    if o.status == 'cpu-limit':
        return [('no-return', 'an engine callback consumed the whole CPU budget of the run without returning control '
                              'to the event loop (endless loop inside the engine)')]
    if o.status == 'steplimit':
        return [('steplimit', f'no completion within {o.iters} loop iterations')]
    if o.status != 'done':
        return [('loop-' + str(o.status), repr(getattr(o, 'loop_exc', None)))]
    return []


def oracle_outcome(o, refres, authoritative=True, collab_may_fail=False):
    """C01(b)/C05: verdict, value and cause against the reference"""
    v = oracle_termination(o)
    if v:
        return v
    oc = o.outcome
    kind = oc[0]
    if kind == 'cancelled':
        return [('escape:CancelledError', 'chart.run was cancelled although nobody cancelled it')]
    if kind == 'raised':
        exc = oc[1]
        cause = classify_error(exc, o)
        if isinstance(exc, Exception):
            return [(f'escape:{type(exc).__name__}', f'chart.run raised {exc!r}')]
        if cause[0] == 'fatal':
            if refres['ok'] and not refres['ambiguous'] and authoritative:
                return [('spurious-fatal', f'{cause}')]
            if not refres['ok'] and authoritative and not refres['ambiguous'] and not cause_admissible(cause, refres):
                return [('wrong-cause', f'raised {cause}, admissible {refres["causes"]}')]
            return []
        return [(f'escape:{type(exc).__name__}', f'chart.run raised {exc!r}')]
    if kind == 'error':
        exc = oc[1]
        cause = classify_error(exc, o)
        if oc[2] is not None:
            out = [('value-with-error', f'value={oc[2]!r} error={exc!r}')]
        else:
            out = []
        if cause[0] == 'artefact':
            return out + [(f'artefact:{cause[1]}', f'error={exc!r}')]
        if cause[0] == 'collab' and collab_may_fail:
            return out
        if not authoritative or refres['ambiguous']:
            return out
        if refres['ok']:
            return out + [('spurious-error', f'reference succeeds with {R.canon(refres["value"])}, engine error {cause}')]
        if not cause_admissible(cause, refres):
            return out + [('wrong-cause', f'engine {cause}, admissible {refres["causes"]}')]
        return out
    # value
    val = oc[1]
    if isinstance(val, BaseException):
        return [('exception-as-value', repr(val))]
    if not authoritative or refres['ambiguous']:
        return []
    if not refres['ok']:
        return [('value-despite-failure', f'engine value {R.canon(val)}, reference fails with {refres["causes"]}')]
    if R.canon(val) != R.canon(refres['value']):
        return [('wrong-value', f'engine {R.canon(val)} reference {R.canon(refres["value"])}')]
    return []


def oracle_executed(o, refres):
    """laziness and at-most-once against the reference (C04/C09/C10/C11)"""
    out = []
    if refres['ambiguous']:
        return out
    extra = o.executed - refres['demanded']
    if extra:
        out.append(('executed-not-demanded', f'{sorted(extra)}'))
    counts = {}
    for e in o.bodies:
        counts[e['node']] = counts.get(e['node'], 0) + 1
    success = refres['ok'] and o.outcome[0] == 'value'
    # a node that succeeded in one iteration and failed in a later one: readers outside the iterating subgraph
    # (e.g. implicit readers of the input node) may legitimately have run after the first iteration
    late_failure = any(any(i['outcome'] in ('ok', 'rec') for i in inv) and inv[-1]['outcome'] not in ('ok', 'rec')
                       and inv[-1]['epoch'] > 0 for inv in refres['invocations'].values())
    for nid, c in counts.items():
        exp = len(refres['invocations'].get(nid, []))
        if exp == 0 and late_failure and nid in refres['demanded']:
            continue
        if c > exp:
            out.append(('too-many-invocations', f'{nid}: {c} > {exp}'))
        elif success and nid in refres['certain'] and c < exp and not _iterated_in_lost_context(nid, refres):
            out.append(('too-few-invocations', f'{nid}: {c} < {exp}'))
    if success:
        for nid in refres['certain']:
            if nid not in counts and refres['invocations'].get(nid):
                out.append(('too-few-invocations', f'{nid}: 0 < {len(refres["invocations"][nid])}'))
    return out


def oracle_kwargs(o, refres):
    """C03: every invocation got exactly the reference kwargs (by position in the node's invocation sequence)"""
    out = []
    if refres['ambiguous']:
        return out
    seen = {}
    for e in o.bodies:
        nid = e['node']
        i = seen.get(nid, 0)
        seen[nid] = i + 1
        exp = refres['invocations'].get(nid, [])
        if i >= len(exp):
            continue  # reported by oracle_executed
        if R.canon(e['kwargs']) != R.canon(exp[i]['kwargs']):
            out.append(('wrong-kwargs', f'{nid} invocation {i + 1}: engine {R.canon(e["kwargs"])} '
                                        f'reference {R.canon(exp[i]["kwargs"])}'))
    dseen = {}
    for e in o.trace:
        if e['kind'] != 'default':
            continue
        nid = e['node']
        i = dseen.get(nid, 0)
        dseen[nid] = i + 1
        exp = refres['defaults'].get(nid, [])
        if i >= len(exp):
            out.append(('unexpected-default', f'{nid} get_default call {i + 1}'))
        elif R.canon(e['kwargs']) != R.canon(engine_kwargs(exp[i])):
            out.append(('wrong-default-kwargs', f'{nid}: engine {R.canon(e["kwargs"])} reference {R.canon(exp[i])}'))
    if refres['ok'] and o.outcome[0] == 'value':
        for nid, exp in refres['defaults'].items():
            if nid in refres['certain'] and dseen.get(nid, 0) < len(exp) and not _iterated_in_lost_context(nid, refres):
                out.append(('missing-default', f'{nid}: {dseen.get(nid, 0)} < {len(exp)}'))
    return out


def _iterated_in_lost_context(nid, refres):
    """lower bounds are per node, not per iteration: when a node was re-iterated and some candidate lost, the
    re-iteration may belong to the losing candidate (whose work may be cut short when the run ends)"""
    return bool(refres['maybe']) and any(i['epoch'] > 0 for i in refres['invocations'].get(nid, []))


def oracle_kwargs_model_free(o, program):
    """C03 model-free part: no exception / Recurrent marker as argument; exactly the declared parameter names;
    every provenance value delivered was really produced (returned by a body or get_default) earlier in this run"""
    from ml_pipeline_engine.types import Recurrent

    out = []
    idx = S.node_index(program)
    inp = S.input_id(program)
    produced = set()
    events = sorted([e for e in o.trace if e['kind'] in ('body', 'default')], key=lambda e: e['seq'])
    # values become available at body end; order by end seq for bodies
    avail = []
    for e in events:
        if e['kind'] == 'default':
            avail.append((e['seq'], R.canon(e['value'])))
        elif e.get('outcome') == 'ok' and e.get('end'):
            avail.append((e['end'], R.canon(e['value'])))
    avail.sort()
    for e in o.bodies:
        nid = e['node']
        n = idx[nid]
        declared = [kw for kw, _ in n['params']]
        if nid == inp:
            declared = declared + list(o.input_kwargs_before.keys())
        if n.get('additional_data'):
            declared.append('additional_data')
        if sorted(e['kwargs']) != sorted(declared):
            out.append(('wrong-kwarg-names', f'{nid}: got {sorted(e["kwargs"])} declared {sorted(declared)}'))
        for kw, v in e['kwargs'].items():
            if isinstance(v, BaseException):
                out.append(('exception-as-argument', f'{nid}.{kw} = {v!r}'))
            elif isinstance(v, Recurrent):
                out.append(('recurrent-as-argument', f'{nid}.{kw} = {v!r}'))
            elif R.is_value(v):
                cv = R.canon(v)
                if not any(s < e['seq'] and a == cv for s, a in avail):
                    out.append(('unproduced-argument', f'{nid}.{kw} = {cv} was not produced before the invocation'))
        if nid == inp:
            for k, v in o.input_kwargs_before.items():
                if k in e['kwargs'] and e['kwargs'][k] != v:
                    out.append(('input-kwargs-altered', f'{k}: {e["kwargs"][k]!r} != {v!r}'))
    del produced
    return out
