def all_checks():
    from verifkit.checks import engine_checks

    checks = {}
    for mod in (engine_checks,):
        for c in mod.CHECKS:
            checks[c.id] = c
    return checks
