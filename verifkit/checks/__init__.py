def all_checks():
    from verifkit.checks import concurrency_checks
    from verifkit.checks import engine_checks
    from verifkit.checks import policy_checks
    from verifkit.checks import pools_check
    from verifkit.checks import reuse_check
    from verifkit.checks import static_checks
    from verifkit.checks import store_check

    checks = {}
    for mod in (engine_checks, concurrency_checks, reuse_check, policy_checks, static_checks, store_check, pools_check):
        for c in mod.CHECKS:
            checks[c.id] = c
    return checks
