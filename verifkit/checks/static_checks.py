"""C15 (build_dag is a faithful translation), C16 (unexecutable declarations are rejected), C20 (viewer config)."""
import json
import os
import shutil
import sys
import tempfile
import types
import warnings

from hypothesis import strategies as st

from verifkit import compile as C
from verifkit import gen as G
from verifkit import spec as S
from verifkit.checks.reuse_check import snapshot
from verifkit.driver import Check
from verifkit.driver import Verdict

STATIC_FEATS = ('switch', 'oneof', 'rec', 'generic', 'retry', 'default')


# ------------------------------------------------------------------------------------------------ C15
def expected_graph(program):
    """independent re-implementation: the declared dependency relation restricted to what the output needs.
    nodes are named by spec ids / structural names of synthetic nodes"""
    inp = S.input_id(program)
    idx = S.node_index(program)
    reach = S.reachable(program)
    nodes = {}
    edges = []  # one entry per declared dependency (a multiset: nothing may be merged)

    def node(n, **attrs):
        nodes.setdefault(n, {}).update(attrs)

    def edge(u, v, **attrs):
        # the definition of one named switch given by two consumers is one synthetic node with one set of edges;
        # every other declared dependency is its own entry
        shared_def = isinstance(v, tuple) and v[0] == 'sw' and (u, v, attrs) in edges
        if not shared_def and not (attrs == {} and (u, v, attrs) in edges):
            edges.append((u, v, attrs))

    node(inp)
    for nid in sorted(reach, key=lambda x: int(x[1:])):
        n = idx[nid]
        node(nid)
        if not n['params'] and nid != inp:
            edge(inp, nid)
        for i, (kw, m) in enumerate(n['params']):
            if m[0] == 'in':
                node(m[1])
                edge(m[1], nid, kwarg_name=kw)
            elif m[0] == 'rec':
                node(m[2], start_node=m[1], max_iterations=m[3])
                edge(m[2], nid, kwarg_name=kw)
            elif m[0] == 'sw':
                syn = ('sw', m[1]) if m[1] is not None else ('sw-anon', nid, kw)
                node(syn, is_switch=True)
                node(m[2])
                edge(m[2], syn, is_switch=True)
                for label, c in m[3]:
                    node(c)
                    edge(c, syn, case_branch=label)
                edge(syn, nid, kwarg_name=kw)
            elif m[0] == 'oneof':
                syn = ('oneof', nid, i)
                node(syn, is_oneof=True, oneof_nodes=list(m[1]))
                edge(inp, syn)
                for c in m[1]:
                    node(c, is_oneof_child=True)
                    edge(c, syn)
                edge(syn, nid, kwarg_name=kw)
    return nodes, edges


def actual_graph(dag, comp):
    """DAG.graph renamed to the structural names used by expected_graph"""
    g = dag.graph

    def val(x):
        return x.value if hasattr(x, 'value') and not isinstance(x, (int, float)) else x

    name = {}
    for n, d in g.nodes(data=True):
        d = {val(k): v for k, v in d.items()}
        if n in comp.spec_id:
            name[n] = comp.spec_id[n]
        elif d.get('is_switch'):
            if n.startswith('switch__5eed') or _anon(n):
                succ = list(g.successors(n))
                c = succ[0] if succ else None
                kw = {val(k): v for k, v in g.edges[n, c].items()}.get('kwarg_name') if c else None
                name[n] = ('sw-anon', comp.spec_id.get(c, c), kw)
            else:
                name[n] = ('sw', n[len('switch__'):])
        elif n.startswith('input_one_of__'):
            head, consumer = n.split('___', 1)
            name[n] = ('oneof', comp.spec_id.get(consumer, consumer), int(head.rsplit('__', 1)[1].rstrip('_')))
        else:
            name[n] = ('unknown', n)
    nodes = {}
    for n, d in g.nodes(data=True):
        d = {val(k): v for k, v in d.items()}
        if 'oneof_nodes' in d:
            d['oneof_nodes'] = [comp.spec_id.get(x, x) for x in d['oneof_nodes']]
        if 'start_node' in d:
            d['start_node'] = comp.spec_id.get(d['start_node'], d['start_node'])
        nodes[name[n]] = d
    edges = []
    for u, v, d in g.edges(data=True):
        edges.append((name[u], name[v], {val(k): x for k, x in d.items() if x is not None}))
    return nodes, edges, name


def _anon(n):
    # unnamed switches get `switch__` + 8 hex digits of a uuid
    tail = n[len('switch__'):]
    return n.startswith('switch__') and len(tail) == 8 and all(c in '0123456789abcdef' for c in tail)


def compare_graphs(exp, act):
    out = []
    en, ee = exp
    an, ae = act[0], act[1]
    for n in en:
        if n not in an:
            out.append(('missing-node', f'{n}'))
    for n in an:
        if n not in en:
            out.append(('extra-node', f'{n}'))
    for n in en:
        if n in an:
            a = {k: v for k, v in an[n].items() if v not in (None, False)}
            e = {k: v for k, v in en[n].items() if v not in (None, False)}
            if a != e:
                out.append(('node-attributes', f'{n}: built {a} declared {e}'))
    rest = list(ae)
    for e in ee:
        if e in rest:
            rest.remove(e)
        else:
            same = [a for a in rest if a[0] == e[0] and a[1] == e[1]]
            if same:
                out.append(('edge-attributes', f'{e[0]} -> {e[1]}: built {same[0][2]} declared {e[2]}'))
                rest.remove(same[0])
            else:
                out.append(('missing-edge', f'declared dependency {e[0]} -> {e[1]} {e[2]} is not in the graph '
                                            f'(dropped or merged with another)'))
    for a in rest:
        out.append(('extra-edge', f'{a[0]} -> {a[1]} {a[2]}'))
    return out


def permuted(program, perm_seed):
    """another valid declaration order of the same program (dependencies first)"""
    g = S.deps_graph(program)
    # a recurrent start must be declared before the destination consumer anyway (it is an ancestor)
    order = []
    remaining = [n['id'] for n in program['nodes'][1:]]
    placed = {program['nodes'][0]['id']}
    k = perm_seed
    idx = S.node_index(program)

    def deps_ok(nid):
        need = set(g[nid])
        for _, m in idx[nid]['params']:
            if m[0] == 'rec':
                need.add(m[1])
        return need <= placed

    while remaining:
        ready = [n for n in remaining if deps_ok(n)]
        pick = ready[k % len(ready)]
        k = k // max(1, len(ready)) + 7 * len(order) + 1
        order.append(pick)
        placed.add(pick)
        remaining.remove(pick)
    return {'nodes': [program['nodes'][0]] + [idx[n] for n in order], 'output': program['output']}


class C15(Check):
    id = 'C15'
    level = 'translation_validation'
    rule = ('case = generated declarations (every mark kind, build_node-derived generic nodes, shared named switches, '
            'nested constructs, unreachable extra classes); build_dag output is compared for equality with an '
            'independent function of the spec: node set (reachable classes + one synthetic per switch / one-of '
            'parameter), edge set with kwarg_name / is_switch / case_branch, node attributes (oneof_nodes order, '
            'start_node, max_iterations, flags), node_map, input / output ids; a second build from a permuted '
            'declaration order must give the same graph; non-trivial = at least one non-Input mark or generic node; '
            'programs = distinct specs, disagreements_checked = graph comparisons made')
    quick_examples = 1500
    thorough_examples = 12000
    assumptions = ('declarations inside W1-W7; a node never binds two parameters to the same source (known finding F13)',)

    def strategy(self, tier):
        hi = 10 if tier == 'quick' else 14

        @st.composite
        def s(draw):
            p = draw(G.programs(feats=STATIC_FEATS, min_nodes=2, max_nodes=hi, clean=False, p_feat=50))
            return {'program': p, 'perm': draw(st.integers(0, 10 ** 6))}

        return s()

    def examine(self, case):
        prog = case['program']
        comp = C.compile_program(prog)
        dag = comp.build_dag()
        exp = expected_graph(prog)
        act = actual_graph(dag, comp)
        viol = compare_graphs(exp, act)
        reach = S.reachable(prog) | {S.input_id(prog)}
        nm = {comp.spec_id.get(k, k): v for k, v in dag.node_map.items()}
        for nid in reach:
            if nm.get(nid) is not comp.classes[nid]:
                viol.append(('node-map', f'{nid} -> {nm.get(nid)}'))
        for k in nm:
            if k not in reach:
                viol.append(('node-map-extra', f'{k}'))
        if comp.spec_id.get(dag.input_node) != S.input_id(prog) or comp.spec_id.get(dag.output_node) != prog['output']:
            viol.append(('input-output', f'{dag.input_node} {dag.output_node}'))
        idx = S.node_index(prog)
        if any(idx[n]['mode'] == 'process' for n in reach) and not dag.is_process_pool_needed:
            viol.append(('pool-flag', 'a process node is reachable but is_process_pool_needed is False'))
        if any(idx[n]['mode'] == 'thread' for n in reach) and not dag.is_thread_pool_needed:
            viol.append(('pool-flag', 'a thread node is reachable but is_thread_pool_needed is False'))
        comparisons = 1
        if not viol:
            p2 = permuted(prog, case['perm'])
            if [n['id'] for n in p2['nodes']] != [n['id'] for n in prog['nodes']]:
                comp2 = C.compile_program(p2)
                act2 = actual_graph(comp2.build_dag(), comp2)
                comparisons += 1
                def norm(a):
                    return a[0], sorted(a[1], key=repr)
                if norm(act2) != norm(act):
                    viol.append(('order-dependent-graph', 'a permuted declaration order gives a different graph: '
                                 + str(compare_graphs((act[0], act[1]), act2))[:500]))
        nontrivial = any(m[0] != 'in' for n in prog['nodes'] if n['id'] in reach for _, m in n['params']) or any(
            idx[n].get('generic') for n in reach)
        classes = []
        for k in ('sw', 'oneof', 'rec'):
            if S.has_kind(prog, k):
                classes.append('mark:' + k)
        if any(idx[n].get('generic') for n in reach):
            classes.append('generic')
        if len(reach) < len(prog['nodes']):
            classes.append('unreachable-classes')
        if comparisons > 1:
            classes.append('permuted')
        sample = {'program': S.compact(prog), 'graph_nodes': len(act[0]), 'graph_edges': len(act[1])}
        return Verdict(viol, nontrivial, classes, sample, runs=comparisons)


# ------------------------------------------------------------------------------------------------ C16
DEFECTS = ('not_a_class', 'no_node_base', 'no_process', 'unannotated_param', 'unannotated_param_with_default',
           'generic_not_rebound',
           'rec_dest_without_protocol', 'rec_start_without_additional_data')


def defect_applicable(program, defect, target):
    idx = S.node_index(program)
    n = idx[target]
    inp = S.input_id(program)
    generic = bool(n.get('generic')) and n['params'] and target != inp and not n.get('additional_data')
    if defect in ('unannotated_param', 'unannotated_param_with_default'):
        # build_node() hides the signature of a generic base behind (*args, **kwargs): not visible to the builder
        return not generic
    if defect == 'generic_not_rebound':
        return bool(n['params']) and target != inp
    if defect == 'rec_dest_without_protocol':
        return bool(n.get('rec_dest'))
    if defect == 'rec_start_without_additional_data':
        return bool(n.get('additional_data')) and any(m[1] == target for _, _, m in S.rec_marks(program)
                                                      if _ in S.reachable(program))
    return True


def expected_errors(defect):
    from ml_pipeline_engine.dag_builders.annotation import errors as BE
    from ml_pipeline_engine.node import errors as NE

    return {
        'not_a_class': (BE.IncorrectTypeClass, NE.ClassExpectedError),
        'no_node_base': (BE.IncorrectBaseClass,),
        'no_process': (NE.RunMethodExpectedError,),
        'unannotated_param': (BE.UndefinedAnnotation, BE.UndefinedParamAnnotation),
        'unannotated_param_with_default': (BE.UndefinedAnnotation, BE.UndefinedParamAnnotation),
        'generic_not_rebound': (BE.NonRedefinedGenericTypeError,),
        'rec_dest_without_protocol': (BE.IncorrectRecurrentMixinClass,),
        'rec_start_without_additional_data': (BE.IncorrectParamsRecurrentNode,),
    }[defect]


def build_from_source(src, program, name):
    from ml_pipeline_engine.dag_builders.annotation import build_dag

    mod = types.ModuleType(name)
    mod.__file__ = f'<{name}>'
    exec(compile(src, mod.__file__, 'exec'), mod.__dict__)
    inp = getattr(mod, C.cls_name(S.input_id(program)))
    out = getattr(mod, C.cls_name(program['output']))
    with C.deterministic_uuid():
        return build_dag(input_node=inp, output_node=out)


class C16(Check):
    id = 'C16'
    level = 'fault_enumeration'
    rule = ('case = a valid generated program (must build) and EVERY applicable single-defect mutation of it: 8 defect '
            'kinds (not a class, no node base, no callable process, un-annotated parameter with / without a default, generic input never rebound, '
            'recurrent destination without the recurrent protocol, recurrent start without additional_data) x every '
            'node reachable from the output, enumerated; the mutated declarations must raise exactly the error class '
            'paired with the defect and return no DAG; non-trivial = the defective node is reached through a non-Input '
            'mark (switch node, case, candidate, recurrent destination / start)')
    quick_examples = 800
    thorough_examples = 3000
    assumptions = ('the defect is placed on a node reachable from the output; the rest of the program is valid',)

    def strategy(self, tier):
        hi = 8 if tier == 'quick' else 11
        return G.programs(feats=STATIC_FEATS, min_nodes=2, max_nodes=hi, clean=False, p_feat=50).map(
            lambda p: {'program': p})

    def examine(self, case):
        prog = case['program']
        viol = []
        runs = 0
        facts = set()
        name = C.module_name(prog)
        try:
            build_from_source(C.gen_source(prog), prog, name)
            runs += 1
        except Exception as e:  # noqa: BLE001
            return Verdict([('valid-program-rejected', f'{type(e).__name__}: {e}')], True, [], None, 1)
        reach = sorted(S.reachable(prog), key=lambda x: int(x[1:]))
        cons = S.consumers(prog)
        only = case.get('only')
        for target in reach:
            for defect in DEFECTS:
                if only and [target, defect] != list(only):
                    continue
                if not defect_applicable(prog, defect, target):
                    continue
                src = C.gen_source(prog, defect=(target, defect))
                runs += 1
                roles = {r for _, _, _, r in cons[target]} | ({'start'} if any(
                    m[1] == target for _, _, m in S.rec_marks(prog)) else set())
                try:
                    dag = build_from_source(src, prog, name + '_m')
                except expected_errors(defect):
                    if roles - {'in'}:
                        facts.add('defect-behind-non-input-mark')
                    facts.add('defect:' + defect)
                    continue
                except Exception as e:  # noqa: BLE001
                    viol.append(('wrong-error-class', f'{defect} at {target}: {type(e).__name__}: {e}'))
                    case = dict(case, only=[target, defect])
                    break
                viol.append(('defect-accepted', f'{defect} at {target} built a DAG {dag!r}'))
                case = dict(case, only=[target, defect])
                break
            if viol:
                break
        verdict = Verdict(viol, 'defect-behind-non-input-mark' in facts, sorted(facts),
                          {'program': S.compact(prog), 'mutations_checked': runs - 1}, runs=runs)
        if viol:
            verdict.case_override = case
        return verdict


# ------------------------------------------------------------------------------------------------ C20
def _viewer():
    if 'importlib_resources' not in sys.modules:
        try:
            import importlib_resources  # noqa: F401
        except ImportError:
            # only used by copy_resources() (copying static files), which is outside this property
            sys.modules['importlib_resources'] = types.ModuleType('importlib_resources')
    with warnings.catch_warnings():
        warnings.simplefilter('ignore')
        from ml_pipeline_viewer.visualization.dag import GraphConfigImpl
    return GraphConfigImpl


class C20(Check):
    id = 'C20'
    level = 'translation_validation'
    rule = ('case = buildable program from a file-backed generated module (docstrings, name, verbose_name, generic '
            'build_node nodes, every mark kind); GraphConfigImpl(dag).generate() must have exactly one node entry per '
            'DAG.graph node (synthetic: is_virtual and typed by id prefix; real: declared name / verbose_name / doc / '
            'type), one edge entry per DAG edge with existing endpoints and pairwise distinct ids, node_types covering '
            'every occurring type; json.dumps(as_dict()) round-trips; the DAG snapshot is unchanged; non-trivial = >=1 '
            'synthetic node; programs = distinct specs, disagreements_checked = configs compared')
    quick_examples = 1200
    thorough_examples = 5000
    assumptions = ('importlib_resources (used only to copy static viewer files) is stubbed when it is not installed',
                   'node classes use the node types the engine declares (NodeType); custom strings: known finding F18')

    def __init__(self):
        self._dir = None

    def _tmpdir(self):
        if self._dir is None:
            self._dir = tempfile.mkdtemp(prefix='vk_c20_')
            import atexit
            atexit.register(shutil.rmtree, self._dir, True)
        return self._dir

    def strategy(self, tier):
        hi = 8 if tier == 'quick' else 11

        @st.composite
        def s(draw):
            p = draw(G.programs(feats=STATIC_FEATS, min_nodes=2, max_nodes=hi, clean=True, p_feat=50))
            for n in p['nodes']:
                n['doc'] = draw(st.booleans())
                n['method_doc'] = draw(st.integers(0, 3)) == 0
                n['verbose_name'] = draw(st.booleans())
                k = draw(st.integers(0, 7))
                if k == 0:
                    n['node_type'] = draw(st.sampled_from(['ml_model', 'feature', 'processor', 'my type']))
                elif k == 1:
                    n['plain_base'] = True
            return {'program': p}

        return s()

    def examine(self, case):
        from ml_pipeline_engine.node.enums import NodeType

        GraphConfigImpl = _viewer()
        prog = case['program']
        d = self._tmpdir()
        comp = C.compile_program(prog, file_dir=d)
        viol = []
        try:
            dag = comp.build_dag()
            before = snapshot(dag, comp.classes)
            with warnings.catch_warnings():
                warnings.simplefilter('ignore')
                try:
                    cfg = GraphConfigImpl(dag).generate(name='g', verbose_name='G', repo_link='http://x')
                except Exception as e:  # noqa: BLE001
                    return Verdict([('generate-raises', f'{type(e).__name__}: {e}')], True, [], None, 1)
            g = dag.graph
            ids = [n.id for n in cfg.nodes]
            if sorted(ids) != sorted(g.nodes):
                viol.append(('node-entries', f'config {sorted(ids)} graph {sorted(g.nodes)}'))
            idx = S.node_index(prog)
            shared_generic = {m for ms in S.shared_generic_groups(prog).values() for m in ms}
            for n in cfg.nodes:
                if n.id in dag.node_map:
                    cls = dag.node_map[n.id]
                    sid = comp.spec_id[n.id]
                    if n.is_virtual:
                        viol.append(('real-node-marked-virtual', n.id))
                    if n.type != cls.node_type:
                        viol.append(('node-type', f'{n.id}: {n.type} != {cls.node_type}'))
                    if n.data is None or n.data.name != cls.name or n.data.verbose_name != cls.verbose_name:
                        viol.append(('node-attributes', f'{n.id}: {n.data}'))
                    else:
                        is_gen = bool(getattr(cls, '__generic_class__', None))
                        want = []
                        if idx[sid].get('method_doc'):
                            want.append(f'process of {sid}')
                        if idx[sid].get('doc') and not want:
                            # the documentation of process() comes first (for a generic node: the process() of the
                            # base it was built from, found through the class hierarchy), then that of the class
                            want.append(f'node {sid} docstring')
                        if sid in shared_generic:
                            want = []  # built from a shared base: the generated module declares no text for it
                        if want and n.data.doc not in want:
                            viol.append(('node-doc', f'{n.id}: {n.data.doc!r} not in {want!r}'))
                    if bool(n.is_generic) != bool(idx[sid].get('generic') and idx[sid]['params']
                                                  and not idx[sid].get('additional_data')):
                        # is_generic is derived from the class name by the viewer ("generic" in the name)
                        pass
                else:
                    if not n.is_virtual:
                        viol.append(('synthetic-node-not-virtual', n.id))
                    want = 'switch' if n.id.startswith('switch') else 'input_one_of'
                    if n.type != want:
                        viol.append(('synthetic-node-type', f'{n.id}: {n.type}'))
            eids = [e.id for e in cfg.edges]
            if len(set(eids)) != len(eids):
                viol.append(('duplicate-edge-ids', str(sorted(eids))))
            if sorted((e.source, e.target) for e in cfg.edges) != sorted(g.edges):
                viol.append(('edge-entries', f'{sorted((e.source, e.target) for e in cfg.edges)} vs {sorted(g.edges)}'))
            for e in cfg.edges:
                if e.source not in ids or e.target not in ids:
                    viol.append(('dangling-edge', e.id))
            types_seen = {n.type for n in cfg.nodes if n.type is not None}
            if not types_seen <= set(cfg.node_types):
                viol.append(('node-types-table', f'{sorted(types_seen)} not covered by {sorted(cfg.node_types)}'))
            for t in cfg.node_types:
                if t not in [x.value for x in NodeType] and t not in types_seen:
                    viol.append(('node-types-table-extra', t))
            try:
                s1 = json.dumps(cfg.as_dict(), ensure_ascii=False)
                if json.loads(s1) != json.loads(json.dumps(json.loads(s1))):
                    viol.append(('json-roundtrip', ''))
            except Exception as e:  # noqa: BLE001
                viol.append(('json-serialisation', f'{type(e).__name__}: {e}'))
            if snapshot(dag, comp.classes) != before:
                viol.append(('dag-modified', 'generating the config changed the DAG'))
        finally:
            sys.modules.pop(comp.module.__name__, None)
            try:
                os.remove(comp.path)
            except OSError:
                pass
        synth = [n for n in dag.graph.nodes if n not in dag.node_map]
        classes = []
        if synth:
            classes.append('synthetic-nodes')
        if any(n.get('generic') for n in prog['nodes']):
            classes.append('generic')
        if any(n.get('node_type') for n in prog['nodes']):
            classes.append('custom-node-type')
        if any(n.get('plain_base') for n in prog['nodes']):
            classes.append('node-type-none')
        sample = {'program': S.compact(prog), 'config_nodes': len(cfg.nodes), 'config_edges': len(cfg.edges)}
        return Verdict(viol, bool(synth), classes, sample, runs=1)


CHECKS = [C15(), C16(), C20()]
