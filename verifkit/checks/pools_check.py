"""C17: execution mode is transparent; a missing pool fails fast."""
import json
import os
import shutil
import subprocess
import sys
import tempfile

from hypothesis import strategies as st

from verifkit import VERIF
from verifkit import compile as C
from verifkit import engine as E
from verifkit import gen as G
from verifkit import oracles as O
from verifkit import realloop
from verifkit import ref as REF
from verifkit import runtime as R
from verifkit import spec as S
from verifkit.checks.engine_checks import BASE_FEATS
from verifkit.checks.engine_checks import EngineCheck
from verifkit.checks.engine_checks import _sanitize
from verifkit.driver import Verdict
from verifkit.driver import ViolationFound

STATES = ('none', 'threads_only', 'process_only', 'threads_shutdown', 'process_shutdown', 'both',
          'both_then_threads_shutdown', 'both_then_process_shutdown')
# history states: every chart first runs with both pools ready, then the pool is shut down and the SAME chart runs again
HISTORY = {'both_then_threads_shutdown': 'threads_shutdown', 'both_then_process_shutdown': 'process_shutdown'}
THREAD_MISSING = ('none', 'process_only', 'threads_shutdown')
PROCESS_MISSING = ('none', 'threads_only', 'process_shutdown')


def with_modes(program, modes):
    p = json.loads(json.dumps(program))
    for n, m in zip(p['nodes'], modes):
        n['mode'] = m
    return p


def real_outcome_violations(res, refres, comp):
    """outcome of a real-pool run against the reference (exception instances cross process boundaries, so causes are
    matched by node id parsed from the message)"""
    from ml_pipeline_engine.dag.errors import BaseDagError

    if res['status'] == 'stuck':
        return [('stuck-on-real-pools', 'no executor future outstanding, no ready handle, no timer, run pending')]
    if res['status'] != 'done':
        return []  # inconclusive (wall clock), counted by the caller
    oc = res['outcome']
    if oc[0] in ('cancelled', 'raised'):
        e = oc[1] if len(oc) > 1 else None
        if isinstance(e, R.Fatal):
            return []
        return [(f'escape:{type(e).__name__ if e is not None else "CancelledError"}', repr(e))]
    if refres['ambiguous']:
        return []
    if oc[0] == 'value':
        if not refres['ok']:
            return [('value-despite-failure', f'{R.canon(oc[1])} but reference fails with {refres["causes"]}')]
        if R.canon(oc[1]) != R.canon(refres['value']):
            return [('wrong-value', f'real pools {R.canon(oc[1])} reference {R.canon(refres["value"])}')]
        return []
    err = oc[1]
    if refres['ok']:
        return [('spurious-error', f'{err!r} but the reference succeeds')]
    if isinstance(err, BaseDagError):
        kinds = {c[0] for c in refres['causes']}
        return [] if kinds & {'oneof', 'rec', 'switch'} else [('wrong-cause', f'{err!r} vs {refres["causes"]}')]
    if isinstance(err, R.NodeFail):
        nid = str(err).split('#')[0]
        ok = any(c[0] == 'node' and c[1] == nid for c in refres['causes'])
        return [] if ok else [('wrong-cause', f'{err!r} vs {refres["causes"]}')]
    return [(f'artefact:{type(err).__name__}', repr(err))]


class C17(EngineCheck):
    id = 'C17'
    feats = BASE_FEATS
    n_scheds = 1
    rule = ('(A) transparency: program x variant x 3 generated assignments of execution modes (coroutine gated / '
            'immediate, inline, thread, process) under the virtual loop with fake executors: outcomes equal across '
            'assignments and equal to the reference; a sample additionally runs on the REAL SelectorEventLoop with real '
            'ThreadPoolExecutor and fork ProcessPoolExecutor (exact stuck verdict by a watchdog; wall-clock expiry = '
            'inconclusive, never a violation); (B) fail fast: programs run in fresh subprocesses whose pool registries '
            'were brought through the public API into each of 6 states (never registered / only threads / only '
            'processes / threads shut down / processes shut down / both): a needed pool that is not ready => error '
            'result, zero body invocations; otherwise the reference value; non-trivial (A) = the assignments differ on '
            'a node the run executes, (B) = a needed pool is missing')
    floors = {'assignments-differ-on-executed-node': 0.5}

    def strategy(self, tier):
        kw = self.gen_kwargs(tier)

        @st.composite
        def s(draw):
            case = draw(G.cases(**kw))
            n = len(case['program']['nodes'])
            case['assignments'] = [[draw(st.sampled_from(list(S.MODES))) for _ in range(n)] for _ in range(3)]
            return _sanitize(case)

        return s()

    def examine(self, case):
        if case.get('registry_state'):
            state = case['registry_state']
            res = self._run_state(state, [case])[0]
            if state in HISTORY:
                v1 = self._judge_state('both', case['program'], case['variant'], res['first'])
                if v1.violations:
                    return v1
                return self._judge_state(HISTORY[state], case['program'], case['variant'], res['second'])
            return self._judge_state(state, case['program'], case['variant'], res)
        if case.get('real_pools'):
            return self._real_one(case['program'], case['variant'])
        prog0, var = case['program'], case['variant']
        viol = []
        keys = []
        obs_all = []
        refres = REF.reference(prog0, var)
        for ai, modes in enumerate(case['assignments']):
            prog = with_modes(prog0, modes)
            comp = C.compile_program(prog)
            o = E.run_once(prog, var, case['scheds'][0] if case.get('scheds') else None, compiled=comp, refres=refres)
            obs_all.append(o)
            viol += [(s, f'[assignment {ai}] {d}') for s, d in O.oracle_outcome(o, refres)]
            keys.append(E.outcome_key(o))
        if len(set(keys)) > 1:
            viol.append(('mode-dependent-outcome', f'{keys}'))
        executed = set().union(*[o.executed for o in obs_all])
        idx = {n['id']: i for i, n in enumerate(prog0['nodes'])}
        differ = any(len({a[idx[nid]] for a in case['assignments']}) > 1 for nid in executed)
        classes = self.classes(case, refres, obs_all)
        if differ:
            classes.append('assignments-differ-on-executed-node')
        sample = {'program': S.compact(prog0, var), 'assignments': case['assignments'], 'outcome': str(keys[0])}
        return Verdict(viol, differ, classes, sample, runs=len(obs_all), excluded=case.get('excluded', ()))

    # ---------------------------------------------------------------- real pools + registry states
    def extra(self, tier, seed, stats):
        shard, nshards = getattr(self, 'shard', (0, 1))
        n_real = 30 if tier == 'quick' else 40
        n_b = 36 if tier == 'quick' else 40
        self._real_sample(tier, seed, stats, n_real)
        if shard % 4 == 0:
            self._registry_states(tier, seed + shard, stats, n_b)

    def _draw_programs(self, seed, n, feats, fail):
        from hypothesis import HealthCheck
        from hypothesis import Phase
        from hypothesis import given
        from hypothesis import seed as hseed
        from hypothesis import settings

        out = []

        @hseed(seed)
        @settings(max_examples=n, database=None, deadline=None, phases=[Phase.generate],
                  suppress_health_check=list(HealthCheck))
        @given(G.cases(feats=feats, clean=True, n_scheds=0, min_nodes=2, max_nodes=7))
        def collect(case):
            out.append(case)

        collect()
        return out

    def _real_one(self, prog, var):
        refres = REF.reference(prog, var)
        comp = C.compile_program(prog)
        chart = comp.build_chart()
        fd, trace = tempfile.mkstemp(prefix='vk_c17_t')
        os.close(fd)
        try:
            res = realloop.run_real(comp, chart, var, timeout=30.0, trace_file=trace)
        finally:
            try:
                os.remove(trace)
            except OSError:
                pass
        if res['status'] == 'timeout':
            return Verdict([], False, ['inconclusive'], None, runs=1)
        viol = real_outcome_violations(res, refres, comp)
        modes = {n_['mode'] for n_ in prog['nodes'] if n_['id'] in refres['demanded']}
        sample = {'program': S.compact(prog, var), 'real_pools': True, 'outcome': str(res['outcome'])[:200]}
        return Verdict(viol, len(modes) > 1, ['real-pools'] + [f'real-mode:{m}' for m in sorted(modes)],
                       sample, runs=1)

    def _real_sample(self, tier, seed, stats, n):
        cases = self._draw_programs(seed + 17, n, ('switch', 'oneof', 'rec', 'fail', 'default', 'retry', 'generic'), True)
        d = tempfile.mkdtemp(prefix='vk_c17_')
        inconclusive = 0
        done = 0
        try:
            for i, case in enumerate(cases):
                prog, var = _sanitize(case)['program'], case['variant']
                # per-invocation outcome lists need a shared counter: not available in worker processes
                for n_ in prog['nodes']:
                    b = var['nodes'].get(n_['id'])
                    if n_['mode'] == 'process' and b and 'outcomes' in b:
                        b.pop('outcomes')
                    if n_['mode'] == 'gated':
                        n_['mode'] = 'coro'
                    if n_.get('delay'):
                        n_['delay'] = 0.01
                rc = {'program': prog, 'variant': var, 'real_pools': True}
                verdict = self._real_one(prog, var)
                if 'inconclusive' in verdict.classes:
                    inconclusive += 1
                    continue
                done += 1
                stats.record(self, rc, verdict)
                if verdict.violations:
                    raise ViolationFound(rc, verdict.violations)
        finally:
            shutil.rmtree(d, ignore_errors=True)
        stats.extra['real_pool_runs'] = stats.extra.get('real_pool_runs', 0) + done
        stats.extra['real_pool_inconclusive'] = stats.extra.get('real_pool_inconclusive', 0) + inconclusive

    def _registry_states(self, tier, seed, stats, n):
        cases = self._draw_programs(seed + 29, n, ('switch', 'oneof', 'rec', 'default'), False)
        progs = []
        for k, c in enumerate(cases):
            p = c['program']
            # exactly ONE reachable node needs a pool (all others are coroutines), preferably a node that is reached
            # lazily (one-of candidate, switch case) or a recurrent destination: the up-front pool validation must
            # account for such nodes too
            reach = sorted(S.reachable(p), key=lambda x: int(x[1:]))
            cons = S.consumers(p)
            lazy = [n for n in reach if any(r in ('cand', 'case', 'rec') for _, _, _, r in cons[n])]
            pool_nodes = lazy if lazy and k % 3 != 2 else reach
            target = pool_nodes[(seed + 7 * k) % len(pool_nodes)]
            for n_ in p['nodes']:
                n_['mode'] = 'coro'
            S.node_index(p)[target]['mode'] = 'process' if k % 2 else 'thread'
            for n_ in p['nodes']:
                n_.pop('both_tags', None)
            if k % 4 == 1:
                # process tag next to the thread tag (either order): the node needs the process pool only
                S.node_index(p)[target]['both_tags'] = 'tp' if k % 8 == 1 else 'pt'
            progs.append({'program': p, 'variant': c['variant']})
        # one generated module per program (named after its digest): identical programs would share a module name and
        # the second compilation would orphan the classes of the first (PicklingError in the worker) - keep one
        seen = set()
        progs = [pc for pc in progs if not (C.module_name(pc['program']) in seen or seen.add(C.module_name(pc['program'])))]
        d = tempfile.mkdtemp(prefix='vk_c17b_')
        checked = 0
        try:
            cp = os.path.join(d, 'cases.json')
            with open(cp, 'w') as f:
                json.dump(progs, f)
            procs = []
            for state in STATES:
                outp = os.path.join(d, f'{state}.json')
                env = dict(os.environ, PYTHONHASHSEED='0')
                procs.append((state, outp, subprocess.Popen(
                    [sys.executable, '-m', 'verifkit.poolworker', state, cp, outp], cwd=VERIF, env=env,
                    stdout=subprocess.DEVNULL, stderr=subprocess.PIPE)))
            for state, outp, p in procs:
                try:
                    _, err = p.communicate(timeout=600)
                except subprocess.TimeoutExpired:
                    p.kill()
                    raise RuntimeError(f'pool worker for state {state} did not finish')
                if p.returncode != 0 or not os.path.exists(outp):
                    raise RuntimeError(f'pool worker for state {state} failed: {err.decode()[-2000:]}')
                with open(outp) as f:
                    results = json.load(f)
                for pc, res in zip(progs, results):
                    steps = [(state, res)] if state not in HISTORY else \
                        [('both', res['first']), (HISTORY[state], res['second'])]
                    for k, (st_, r_) in enumerate(steps):
                        checked += 1
                        verdict = self._judge_state(st_, pc['program'], pc['variant'], r_)
                        if state in HISTORY:
                            verdict.classes.append('chart-reused-after-pool-shutdown')
                            verdict.violations = [(s_, f'[{state}, run {k + 1} of the same chart] {d_}')
                                                  for s_, d_ in verdict.violations]
                        rc = {'program': pc['program'], 'variant': pc['variant'], 'registry_state': state}
                        stats.record(self, rc, verdict)
                        if verdict.violations:
                            raise ViolationFound(rc, verdict.violations)
        finally:
            shutil.rmtree(d, ignore_errors=True)
        stats.extra['registry_state_runs'] = stats.extra.get('registry_state_runs', 0) + checked

    def _run_state(self, state, progs):
        d = tempfile.mkdtemp(prefix='vk_c17b_')
        try:
            cp = os.path.join(d, 'cases.json')
            outp = os.path.join(d, 'out.json')
            with open(cp, 'w') as f:
                json.dump(progs, f)
            p = subprocess.run([sys.executable, '-m', 'verifkit.poolworker', state, cp, outp], cwd=VERIF,
                               env=dict(os.environ, PYTHONHASHSEED='0'), capture_output=True, timeout=600)
            if p.returncode != 0:
                raise RuntimeError(p.stderr.decode()[-2000:])
            with open(outp) as f:
                return json.load(f)
        finally:
            shutil.rmtree(d, ignore_errors=True)

    def _judge_state(self, state, prog, var, res):
        reach = S.reachable(prog)
        idx = S.node_index(prog)
        thread_in_use = any(idx[n]['mode'] == 'thread' for n in reach)
        process_in_use = any(idx[n]['mode'] == 'process' for n in reach)
        inline_in_use = any(idx[n]['mode'] == 'inline' for n in reach)
        missing = (thread_in_use and state in THREAD_MISSING) or (process_in_use and state in PROCESS_MISSING)
        viol = []
        if missing:
            if res['outcome'] == 'timeout':
                viol.append(('missing-pool-hangs', f'state {state}: no result within 20 s'))
            elif res['outcome'] != 'error':
                viol.append(('missing-pool-not-reported', f'state {state}: outcome {res}'))
            elif res['bodies'] != 0:
                viol.append(('bodies-invoked-despite-missing-pool', f'state {state}: {res["bodies"]} bodies ran'))
        elif inline_in_use and state in THREAD_MISSING:
            pass  # the engine asks for the thread pool for inline nodes as well: not covered by the statement
        else:
            refres = REF.reference(prog, var)
            if refres['ok'] and (res['outcome'] != 'value' or res.get('value') != repr(R.canon(refres['value']))):
                viol.append(('outcome-differs-with-ready-pools', f'state {state}: {res} reference '
                                                                 f'{R.canon(refres["value"])!r}'))
            if not refres['ok'] and res['outcome'] != 'error':
                viol.append(('outcome-differs-with-ready-pools', f'state {state}: {res} reference fails'))
        return Verdict(viol, missing, [f'registry:{state}'] + (['needed-pool-missing'] if missing else []),
                       None, runs=1)


CHECKS = [C17()]
