"""C06 (siblings run concurrently), C08 (overlapping runs), C13 (nothing left running)."""
from hypothesis import strategies as st

from verifkit import compile as C
from verifkit import engine as E
from verifkit import gen as G
from verifkit import oracles as O
from verifkit import ref as REF
from verifkit import runtime as R
from verifkit import session as SS
from verifkit import spec as S
from verifkit import vloop as V
from verifkit.checks.engine_checks import BASE_FEATS
from verifkit.checks.engine_checks import EngineCheck
from verifkit.checks.engine_checks import _sanitize
from verifkit.checks.engine_checks import _tag
from verifkit.checks.engine_checks import collabs
from verifkit.driver import Check
from verifkit.driver import Verdict


def depths(program):
    g = S.deps_graph(program)
    d = {}
    for n in program['nodes']:
        d[n['id']] = 1 + max([d[x] for x in g[n['id']]], default=-1)
    return d


# ------------------------------------------------------------------------------------------------ C06
class C06(Check):
    id = 'C06'
    rule = ('case = layered plain-Input DAG (2-5 layers, width 1-4, every execution mode); for EVERY depth d of the '
            'program the completions of all depth-d nodes are withheld until the loop is quiescent, then every node of '
            'depth d must have started (per program the enumeration over depths is exhaustive); non-trivial = a depth '
            'with >=2 holdable (gated / thread / process) nodes; distinct = digest of the program. Second part, real '
            'threads: the same DAGs on the real loop with a real ThreadPoolExecutor; the bodies of the widest depth '
            '(thread-pool and coroutine members) rendezvous without a timeout - if the engine cannot have them in '
            'flight together the process becomes quiescent (every thread asleep and unscheduled, no timer), which is '
            'the verdict')
    floors = {'depth-with>=2-holdable': 0.6}
    quick_examples = 3000
    thorough_examples = 12000
    assumptions = ('a held node has entered its body (fake executor runs the body at submit, as a free worker would)',
                   'depth = longest dependency path from the input node')

    def strategy(self, tier):
        layers = 5 if tier == 'quick' else 6
        return G.layered_dags(max_layers=layers, max_width=4).map(lambda p: {'program': p})

    # ---------------------------------------------------------------- real threads (rendezvous)
    @staticmethod
    def real_thread_case(prog):
        """the program as it is run on the real loop with a real thread pool, and the group that must rendezvous: the
        widest depth that has >=2 members run by the thread pool or as coroutines, at least one of them in the pool"""
        prog = S.clone(prog)
        for n in prog['nodes']:
            n['mode'] = {'gated': 'coro', 'process': 'thread'}.get(n['mode'], n['mode'])
        reach = S.reachable(prog)
        dep = depths(prog)
        idx = S.node_index(prog)
        by_depth = {}
        for n in sorted(reach, key=lambda x: int(x[1:])):
            if idx[n]['mode'] in ('thread', 'coro') and n != S.input_id(prog):
                by_depth.setdefault(dep[n], []).append(n)
        best = None
        for d, members in sorted(by_depth.items()):
            nthread = sum(1 for m in members if idx[m]['mode'] == 'thread')
            if len(members) >= 2 and nthread >= 1 and (best is None or (nthread, len(members)) > best[0]):
                best = ((nthread, len(members)), d, members)
        if best is None:
            return None
        return {'program': prog, 'real_threads': {'depth': best[1], 'group': best[2]}}

    def _examine_real_threads(self, case):
        from verifkit import realloop

        prog = case['program']
        group = case['real_threads']['group']
        comp = C.compile_program(prog)
        chart = comp.build_chart()
        res = realloop.run_rendezvous(comp, chart, {'x': 0, 'nodes': {}}, group)
        idx = S.node_index(prog)
        viol = []
        if res['status'] == 'serialised':
            missing = sorted(set(group) - set(res['entered']))
            viol.append(('siblings-not-in-flight-together',
                         f'real thread pool, depth {case["real_threads"]["depth"]}: {sorted(res["entered"])} are inside '
                         f'their bodies waiting for {missing}, which never started; the process is quiescent (every '
                         f'thread asleep and never scheduled, no timer, no ready callback)'))
        elif res['status'] == 'done' and res['outcome'][0] != 'value':
            viol.append(('run-failed', str(res['outcome'])[:200]))
        classes = ['real-threads'] if res['status'] != 'inconclusive' else ['real-threads-inconclusive']
        nthread = sum(1 for m in group if idx[m]['mode'] == 'thread')
        if nthread >= 2:
            classes.append('real-threads:>=2-pool-members')
        sample = {'program': S.compact(prog), 'real_thread_pool': True, 'rendezvous_group': group,
                  'status': res['status']}
        return Verdict(viol, res['status'] != 'inconclusive', classes, sample, runs=1)

    def extra(self, tier, seed, stats):
        from verifkit.checks.engine_checks import draw_strategy
        from verifkit.driver import ViolationFound

        n = 60 if tier == 'quick' else 250
        done = 0
        for case in draw_strategy(seed + 41, n, self.strategy(tier)):
            rc = self.real_thread_case(case['program'])
            if rc is None:
                continue
            verdict = self.examine(rc)
            stats.record(self, rc, verdict)
            done += 1
            if verdict.violations:
                raise ViolationFound(rc, verdict.violations)
        stats.extra['real_thread_rendezvous_runs'] = done

    def examine(self, case):
        if case.get('real_threads'):
            return self._examine_real_threads(case)
        prog = case['program']
        reach = S.reachable(prog)
        dep = depths(prog)
        idx = S.node_index(prog)
        maxd = max(dep[n] for n in reach)
        comp = C.compile_program(prog)
        chart = comp.build_chart()
        var = {'x': 0, 'nodes': {}}
        state = {'d': 0, 'viol': [], 'checked': 0}
        rec_holder = {}

        def held(label):
            return label[0] in ('gate', 'exec') and dep.get(label[2]) == state['d']

        def on_quiescent(loop):
            # only completions of depth d are outstanding and nothing else can happen
            d = state['d']
            started = {e['node'] for e in rec_holder['h'].rec.trace if e['kind'] == 'body'}
            missing = sorted(n for n in reach if dep[n] == d and n not in started)
            state['checked'] += 1
            if missing:
                state['viol'].append(('sibling-not-started',
                                      f'depth {d}: {missing} not started while '
                                      f'{sorted(l[2] for l, _ in loop.pending)} are held open'))
                return False
            state['d'] = d + 1
            return True

        sess = SS.Session(V.HoldChooser(held, on_quiescent), max_iters=20000)
        try:
            h = sess.start_run(comp, chart, var)
            rec_holder['h'] = h
            sess.drive()
            viol = list(state['viol'])
            if not viol and sess.status != 'done':
                viol.append((str(sess.status), f'run did not complete: {h.outcome}'))
            if not viol and h.outcome[0] != 'value':
                viol.append(('run-failed', str(h.outcome)))
            if not viol:
                # depths whose nodes are all inline/coro never reach a held quiescent point; check them from the trace
                started = {e['node'] for e in h.rec.trace if e['kind'] == 'body'}
                if reach - started:
                    viol.append(('not-executed', f'{sorted(reach - started)}'))
        finally:
            sess.close()
        holdable = {}
        for n in reach:
            if idx[n]['mode'] in ('gated', 'thread', 'process'):
                holdable[dep[n]] = holdable.get(dep[n], 0) + 1
        nontrivial = any(v >= 2 for v in holdable.values())
        classes = ['depths:%d' % min(maxd, 5)]
        if nontrivial:
            classes.append('depth-with>=2-holdable')
        sample = {'program': S.compact(prog), 'depths': {n: dep[n] for n in sorted(reach)},
                  'quiescent_points_checked': state['checked']}
        return Verdict(viol, nontrivial, classes, sample, runs=1)


# ------------------------------------------------------------------------------------------------ C08
@st.composite
def overlap_cases(draw, tier):
    hi = 8 if tier == 'quick' else 11
    prog = draw(G.programs(feats=BASE_FEATS, min_nodes=3, max_nodes=hi, clean=True))
    k = draw(st.integers(2, 4))
    variants = [draw(G.variants(prog, feats=BASE_FEATS, x=i)) for i in range(k)]
    # retries in several runs at once: nodes with a retry configuration fail a few times in every run
    for n in prog['nodes']:
        if (n.get('attempts') or 0) >= 2 and draw(st.integers(0, 2)) != 0:
            for var in variants:
                k_ = draw(st.integers(1, 3))
                var['nodes'].setdefault(n['id'], {})['outcomes'] = ['ErrA'] * k_
    sched = draw(G.schedules(prog, max_tape=96))
    case = {'program': prog, 'variants': variants, 'sched': sched}
    if draw(st.integers(0, 3)) == 0:
        case['cancel'] = {'run': draw(st.integers(0, k - 1)), 'at': draw(st.integers(1, 40))}
    if draw(st.integers(0, 3)) == 0:
        case['two_charts'] = True
    return case


class C08(Check):
    id = 'C08'
    rule = ('case = program x k in 2..4 runs with different variants and run tags started together on ONE virtual loop x '
            'one interleaved schedule over the union of their completions (optionally one run cancelled at a generated '
            'loop step; optionally two charts built from the same node classes); every run must end with the outcome it '
            'has when run alone under the FIFO schedule, and with the reference outcome; no kwarg may carry another '
            "run's tag (provenance digests include the run tag); non-trivial = completions of >=2 different runs were "
            'outstanding at once')
    floors = {'interleaved': 0.5}
    quick_examples = 700
    thorough_examples = 6000
    assumptions = EngineCheck.assumptions

    def strategy(self, tier):
        return overlap_cases(tier)

    def examine(self, case):
        prog = case['program']
        comp = C.compile_program(prog)
        chart = comp.build_chart()
        chart2 = comp.build_chart() if case.get('two_charts') else chart
        variants = case['variants']
        refs = []
        work = 0
        for i, var in enumerate(variants):
            r = REF.reference(prog, var, {'x': var.get('x', 0), 'tag': f'r{i}'})
            refs.append(r)
            work += r['work']
        sess = SS.Session(SS.make_chooser(case['sched']), max_iters=500 * max(50, work))
        viol = []
        try:
            hs = []
            for i, var in enumerate(variants):
                hs.append(sess.start_run(comp, chart if i % 2 == 0 else chart2, var, tag=f'r{i}'))
            cancelled = None
            if case.get('cancel'):
                cancelled = case['cancel']['run']
                sess.cancel_at(hs[cancelled], case['cancel']['at'])
            sess.drive()
            multi_out = set()
            pend = {}
            # interleaving fact: completions of two runs outstanding at once
            for lab in sess.loop.fire_log:
                if lab[0] != 'time':
                    multi_out.add(lab[1])
            obs = [E.observe(sess, h, comp) for h in hs]
            for i, (o, r) in enumerate(zip(obs, refs)):
                if i == cancelled and o.outcome[0] in ('cancelled',):
                    continue
                pre = f'[run r{i}] '
                v = O.oracle_outcome(o, r)
                v += O.oracle_kwargs(o, r) if o.status == 'done' else []
                v += O.oracle_executed(o, r) if o.status == 'done' and i != cancelled else []
                for e in o.bodies:
                    for kw, val in e['kwargs'].items():
                        if kw == 'tag' and val != f'r{i}':
                            v.append(('foreign-run-value', f'{e["node"]}.tag = {val!r}'))
                viol += [(s, pre + d) for s, d in v]
            del pend
        finally:
            sess.close()
        # solo comparison (model-free): each run alone under FIFO gives the same outcome key
        if not viol:
            for i, var in enumerate(variants):
                if i == cancelled:
                    continue
                solo = E.run_once(prog, var, None, compiled=comp, refres=refs[i], tag=f'r{i}')
                if E.outcome_key(solo) != E.outcome_key(obs[i]):
                    viol.append(('differs-from-solo-run', f'run r{i}: overlapped {E.outcome_key(obs[i])} '
                                                          f'solo {E.outcome_key(solo)}'))
        interleaved = self._interleaved(sess)
        classes = [f'runs:{len(variants)}']
        if interleaved:
            classes.append('interleaved')
        if case.get('cancel'):
            classes.append('one-run-cancelled')
        if case.get('two_charts'):
            classes.append('two-charts')
        if any(not r['ok'] for r in refs):
            classes.append('a-run-fails')
        sample = {'program': S.compact(prog), 'variants': variants, 'sched': case['sched'],
                  'deliveries': [f'{l[1]}:{l[2]}' if l[0] != 'time' else 'time' for l in sess.loop.fire_log][:20],
                  'outcomes': [str(E.outcome_key(o)) for o in obs]}
        return Verdict(viol, interleaved, classes, sample, runs=len(variants) * 2)

    @staticmethod
    def _interleaved(sess):
        # deliveries alternate between runs at least once: a b a pattern over run tags
        tags = [l[1] for l in sess.loop.fire_log if l[0] != 'time']
        seen = []
        for t in tags:
            if not seen or seen[-1] != t:
                seen.append(t)
        return len(seen) > len(set(seen))


# ------------------------------------------------------------------------------------------------ C13
class C13(Check):
    id = 'C13'
    level = 'fault_enumeration'
    rule = ('case = program x variant (faults as in C02, collaborators recording / gated) x schedule; the uncancelled '
            'run takes K loop iterations; the case is re-run with run_task.cancel() injected at iterations 1..K (quick: '
            '<=10 evenly spread points, thorough: every point); after the run task finishes the loop is stepped to '
            'quiescence WITHOUT delivering any further completion or advancing the clock: every task created during '
            'the run must be done, no body / event callback / save may start after that moment, a cancelled run ends '
            'as CancelledError only; non-trivial = the run ended (cancelled or failed) while >=1 completion was '
            'outstanding')
    floors = {'ended-with-outstanding': 0.4}
    quick_examples = 600
    thorough_examples = 3000
    assumptions = EngineCheck.assumptions

    def strategy(self, tier):
        @st.composite
        def s(draw):
            case = draw(G.cases(feats=BASE_FEATS, clean=True, n_scheds=1, min_nodes=2, collab_scheds=True,
                                max_nodes=8 if tier == 'quick' else 10))
            case['collab'] = draw(collabs())
            case['all_points'] = tier == 'thorough'
            return _sanitize(case)

        @st.composite
        def abandoned_work(draw):
            # directed: a one-of candidate is abandoned while nodes its sub-run started are still in flight; one node
            # is held open for good, so that the run ends (or is cancelled) while it is in flight
            from verifkit.checks import engine_checks as EC

            case = draw(st.one_of(EC.candidate_lazy_failure_templates(tier), EC.shared_failure_templates(tier),
                                  EC.shared_between_candidates_templates(tier),
                                  EC.nested_containment_templates(tier)))
            ids = [n['id'] for n in case['program']['nodes'] if n['mode'] in ('gated', 'thread', 'process')]
            if ids and draw(st.booleans()):
                case['scheds'] = [{'kind': 'delay', 'node': draw(st.sampled_from(ids)), 'after': 10 ** 6}]
            else:
                case['scheds'] = [draw(st.sampled_from(case['scheds']))]
            case['collab'] = draw(collabs())
            case['all_points'] = tier == 'thorough'
            return case

        return st.one_of(*([s()] * 5), abandoned_work())

    def _one(self, case, comp, refres, cancel_at):
        prog, var = case['program'], case['variant']
        ems, store = E.build_collab(case.get('collab'))
        chart = comp.build_chart(ems, store)
        sess = SS.Session(SS.make_chooser(case['scheds'][0]), max_iters=E.step_budget(refres))
        viol = []
        try:
            h = sess.start_run(comp, chart, var)
            if cancel_at is not None:
                sess.cancel_at(h, cancel_at)
            sess.drive()
            o = E.observe(sess, h, comp)
            marker = {'seq': h.rec.end_seq if h.rec.end_seq is not None else 1 << 60,
                      'pending': h.rec.end_pending}
            pre = f'[cancel at {cancel_at}] ' if cancel_at is not None else '[no cancel] '
            if sess.status in ('deadlock', 'steplimit'):
                viol.append(('cancel-hangs' if cancel_at is not None else sess.status,
                             pre + f'run task still pending after {sess.loop.iters} iterations: {o.leftovers}'))
            else:
                if o.leftovers:
                    viol.append(('task-left-running', pre + f'{o.leftovers}'))
                after = [e for e in h.rec.trace if e['seq'] > marker.get('seq', 1 << 60)]
                started = [e for e in after if e['kind'] in ('body', 'event', 'save', 'default')
                           and not (e['kind'] == 'event' and e['hook'] == 'on_pipeline_complete')]
                if started:
                    e = started[0]
                    viol.append(('started-after-run-ended',
                                 pre + f'{e["kind"]} {e.get("node")} {e.get("hook", "")} started after run ended'))
                oc = o.outcome
                if cancel_at is not None and h.cancel_accepted and oc[0] == 'raised' and not isinstance(oc[1], R.Fatal):
                    viol.append(('cancel-surfaces-as-' + type(oc[1]).__name__, pre + repr(oc[1])))
                if cancel_at is not None and h.cancel_accepted and oc[0] in ('value', 'error'):
                    viol.append(('cancel-swallowed', pre + 'the run task was cancelled while pending but chart.run '
                                                     f'returned a result: {oc[:2]!r}'))
                if cancel_at is None and oc[0] == 'cancelled':
                    viol.append(('escape:CancelledError', pre + 'nobody cancelled'))
            return viol, o, marker
        finally:
            sess.close()

    def examine(self, case):
        prog, var = case['program'], case['variant']
        refres = REF.reference(prog, var)
        comp = C.compile_program(prog)
        viol, base, marker = self._one(case, comp, refres, None)
        runs = 1
        outstanding = marker.get('pending', 0) > 0
        if not viol:
            k = base.done_iter or base.iters
            points = list(range(1, k + 1))
            if not case.get('all_points') and len(points) > 10:
                step = len(points) / 10.0
                points = sorted({points[int(i * step)] for i in range(10)})
            for p in points:
                v, o, m = self._one(case, comp, refres, p)
                runs += 1
                if m.get('pending', 0) > 0:
                    outstanding = True
                if v:
                    viol = v
                    case = dict(case, cancel_points=[p])
                    break
        classes = ['ended-with-outstanding'] if outstanding else []
        if not refres['ok']:
            classes.append('ref-fails')
        if case.get('collab', {}).get('ems'):
            classes.append('with-event-managers')
        if case.get('collab', {}).get('store'):
            classes.append('with-store')
        sample = {'program': S.compact(prog, var), 'sched': case['scheds'][0], 'collab': case.get('collab'),
                  'iterations_of_uncancelled_run': base.done_iter, 'cancel_points_tried': runs - 1}
        verdict = Verdict(viol, outstanding, classes, sample, runs=runs)
        return verdict


CHECKS = [C06(), C08(), C13()]
