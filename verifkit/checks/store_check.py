"""C18: the filesystem artifact store is a write-once map keyed exactly by node id (stateful, model-based)."""
import ast
import asyncio
import copy
import shutil
import tempfile
import warnings

from hypothesis import strategies as st
from hypothesis.stateful import RuleBasedStateMachine
from hypothesis.stateful import invariant
from hypothesis.stateful import rule

from verifkit.driver import Check
from verifkit.driver import Verdict
from verifkit.driver import ViolationFound

ID_ALPHABET = 'abxy.*?[]!- _01'
IDS = st.one_of(
    st.sampled_from(['x', 'x.y', 'x.pickle', 'x.json', 'x.y.z', 'a', 'a[1]', 'a1', '*', 'a*', '?', 'a?', '[ab]', 'b',
                     '.hidden', 'x.', '..x', 'x y', '!a', '[!a]', 'a.b', 'x.py']),
    st.text(alphabet=ID_ALPHABET, min_size=1, max_size=6),
)

_json_leaf = st.one_of(st.none(), st.booleans(), st.integers(-10 ** 12, 10 ** 12),
                       st.floats(allow_nan=False, allow_infinity=False, width=64),
                       st.text(alphabet=st.characters(blacklist_categories=('Cs',), max_codepoint=0x2FFF), max_size=8))
# JSON object keys are strings; keys that LOOK like other JSON scalars must come back as the very same strings
_json_keys = st.one_of(
    st.text(alphabet='abcé', max_size=3),
    st.sampled_from(['0', '1', '01', '007', '2024', '-1', '1.5', '1e3', 'true', 'false', 'null', 'None', 'NaN',
                     'Infinity', '\u00b2', '\u0661', ' 1', '1 ', '[]', '{}', '"a"']),
    st.integers(-100, 3000).map(str),
    st.text(alphabet=st.characters(blacklist_categories=('Cs',), max_codepoint=0x2FFF), max_size=4))
JSON_VALUES = st.recursive(_json_leaf, lambda ch: st.one_of(
    st.lists(ch, max_size=3), st.dictionaries(_json_keys, ch, max_size=3)), max_leaves=8)
_pickle_leaf = st.one_of(_json_leaf, st.binary(max_size=8), st.complex_numbers(allow_nan=False, allow_infinity=False))
PICKLE_VALUES = st.recursive(_pickle_leaf, lambda ch: st.one_of(
    st.lists(ch, max_size=3), st.tuples(ch, ch), st.dictionaries(st.one_of(st.text(max_size=3), st.integers()), ch,
                                                                 max_size=3),
    ), max_leaves=8)

CONTEXTS = [('m1', 'p1'), ('m1', 'p2'), ('m2', 'p1')]


class _Ctx:
    def __init__(self, model_name, pipeline_id):
        self.model_name = model_name
        self.pipeline_id = pipeline_id


class Unserialisable:
    """json.dump raises TypeError; pickling raises because of the lambda attribute"""

    def __init__(self):
        self.f = lambda: None


class StoreRunner:
    """applies operations to the real store and to a dict; used by the machine and by plain replay"""

    def __init__(self):
        from ml_pipeline_engine.artifact_store.store.filesystem import FileSystemArtifactStore

        self.dir = tempfile.mkdtemp(prefix='vk_c18_')
        self.loop = asyncio.new_event_loop()
        # TWO store objects per (model name, pipeline id): every run of a chart constructs its own store object, the
        # map they implement lives in the directory, not in the object
        self.stores = {(c, h): FileSystemArtifactStore(ctx=_Ctx(*c), artifact_dir=self.dir)
                       for c in CONTEXTS for h in (0, 1)}
        self.model = {}
        self.keys = set()
        self.ops = []
        self.facts = set()

    def close(self):
        self.loop.close()
        shutil.rmtree(self.dir, ignore_errors=True)

    def _call(self, coro):
        with warnings.catch_warnings():
            warnings.simplefilter('ignore')
            return self.loop.run_until_complete(coro)

    def step(self, op):
        from ml_pipeline_engine.artifact_store.enums import DataFormat
        from ml_pipeline_engine.artifact_store.errors import ArtifactAlreadyExists
        from ml_pipeline_engine.artifact_store.errors import ArtifactDoesNotExist

        self.ops.append(op)
        ctx = tuple(CONTEXTS[op['ctx']])
        store = self.stores[(ctx, op.get('h', 0))]
        if op.get('h'):
            self.facts.add('second-store-object')
        key = (ctx, op['id'])
        prefix_rel = [k for k in self.keys if k[0] == ctx and k[1] != op['id']
                      and (k[1].startswith(op['id'] + '.') or op['id'].startswith(k[1] + '.'))]
        if prefix_rel:
            self.facts.add('ids-in-prefix-relation')
        if any(ch in op['id'] for ch in '*?[]!'):
            self.facts.add('glob-metacharacters')
        if len({k[0] for k in self.keys} | {ctx}) > 1:
            self.facts.add('several-contexts')
        self.keys.add(key)
        viol = []
        n = len(self.ops)
        if op['op'] == 'save':
            fmt = DataFormat.JSON if op['fmt'] == 'json' else DataFormat.PICKLE
            if op['fmt'] == 'json':
                self.facts.add('json-save')
            plain = ast.literal_eval(op['value'])
            value = Unserialisable() if op.get('unserialisable') else plain
            try:
                if op.get('default_fmt'):
                    self._call(store.save(op['id'], value))
                else:
                    self._call(store.save(op['id'], value, fmt=fmt))
                err = None
            except Exception as e:  # noqa: BLE001
                err = e
            if key in self.model:
                self.facts.add('second-save')
                if not isinstance(err, ArtifactAlreadyExists):
                    viol.append(('second-save-accepted', f'op {n}: save of existing {key} -> {err!r}'))
            elif op.get('unserialisable'):
                self.facts.add('failed-save')
                if err is None:
                    viol.append(('unserialisable-save-succeeded', f'op {n}: {key}'))
                elif isinstance(err, ArtifactAlreadyExists):
                    viol.append(('aliasing-on-save', f'op {n}: {key} reported as existing: {err!r}'))
            elif err is not None:
                viol.append(('save-failed', f'op {n}: save of new key {key} fmt={op["fmt"]} raised {err!r}'))
            else:
                self.model[key] = copy.deepcopy(plain)
        else:
            viol += self._check_load(key, f'op {n}', handles=(op.get('h', 0),))
        if not viol:
            for k in sorted(self.keys, key=repr):
                viol += self._check_load(k, f'scan after op {n}')
                if viol:
                    break
        return viol

    def _check_load(self, key, where, handles=(0, 1)):
        out = []
        for h in handles:
            out += self._check_load_one(key, f'{where} [store object {h}]', self.stores[(key[0], h)])
            if out:
                break
        return out

    def _check_load_one(self, key, where, store):
        from ml_pipeline_engine.artifact_store.errors import ArtifactDoesNotExist

        try:
            got = self._call(store.load(key[1]))
            err = None
        except Exception as e:  # noqa: BLE001
            got, err = None, e
        if key in self.model:
            if err is not None:
                return [('load-of-saved-key-fails', f'{where}: {key} -> {err!r}')]
            if got != self.model[key] or type(got) is not type(self.model[key]):
                return [('loaded-value-differs', f'{where}: {key} -> {got!r}, saved {self.model[key]!r}')]
            return []
        if err is None:
            return [('load-of-absent-key-succeeds', f'{where}: {key} -> {got!r} (aliasing or a failed save left data)')]
        if not isinstance(err, ArtifactDoesNotExist):
            return [('load-of-absent-key-wrong-error', f'{where}: {key} -> {err!r}')]
        return []

    def nontrivial(self):
        return bool(self.facts & {'json-save', 'ids-in-prefix-relation', 'failed-save'})


@st.composite
def store_ops(draw):
    op = {'ctx': draw(st.integers(0, len(CONTEXTS) - 1)), 'id': draw(IDS), 'h': draw(st.sampled_from([0, 0, 1]))}
    kind = draw(st.sampled_from(['save', 'save', 'save', 'load', 'load', 'bad']))
    if kind == 'load':
        op['op'] = 'load'
        return op
    op['op'] = 'save'
    op['fmt'] = draw(st.sampled_from(['pickle', 'json']))
    if kind == 'bad':
        op['unserialisable'] = True
        op['value'] = 'None'
        return op
    # values are stored as Python literals so that a replay file reproduces them exactly
    op['value'] = repr(draw(JSON_VALUES if op['fmt'] == 'json' else PICKLE_VALUES))
    if op['fmt'] == 'pickle' and draw(st.integers(0, 3)) == 0:
        op['default_fmt'] = True
    return op


class C18(Check):
    id = 'C18'
    rule = ('stateful (Hypothesis RuleBasedStateMachine) against a dict model keyed by (model name, pipeline id, node id): '
            'one scratch directory, 3 contexts sharing it; rules save(ctx, id, value, fmt) / save of an unserialisable '
            'value / load(ctx, id); ids from an alphabet with dots, * ? [ ] !, spaces, leading dots and pairs in prefix '
            'relation (x, x.y, x.pickle); values = recursively generated picklable / JSON-representable data; after every '
            'step a full scan of all keys ever used must agree with the model; non-trivial = the history contains a JSON '
            'save, two ids in prefix relation, or a failed save followed by more operations; distinct = digest of the '
            'operation list')
    quick_examples = 800
    thorough_examples = 3000
    max_steps = 12
    floors = {'json-save': 0.3, 'ids-in-prefix-relation': 0.1}
    assumptions = ('node ids, model names and pipeline ids contain no path separator or NUL (W7)',
                   'JSON values: finite floats, str keys, no lone surrogates; equality after load is ==, same type')

    def examine(self, case):
        r = StoreRunner()
        viol = []
        try:
            for op in case['ops']:
                viol = r.step(op)
                if viol:
                    break
            return Verdict(viol, r.nontrivial(), sorted(r.facts), {'ops': _show(r.ops)}, runs=len(r.ops))
        finally:
            r.close()

    def machine(self, tier, stats):
        check = self

        class StoreMachine(RuleBasedStateMachine):
            def __init__(self):
                super().__init__()
                self.r = StoreRunner()

            @rule(op=store_ops())
            def operation(self, op):
                viol = self.r.step(op)
                if viol:
                    raise ViolationFound({'ops': list(self.r.ops)}, viol)

            @invariant()
            def model_agrees(self):
                pass  # the full scan runs inside every step (it needs the step number for the report)

            def teardown(self):
                r = self.r
                if r.ops:
                    stats.record(check, {'ops': list(r.ops)},
                                 Verdict([], r.nontrivial(), sorted(r.facts), {'ops': _show(r.ops)}, runs=len(r.ops)))
                r.close()

        return StoreMachine


def _show(ops):
    out = []
    for o in ops[:8]:
        d = {k: (repr(v)[:40] if k == 'value' else v) for k, v in o.items()}
        out.append(d)
    return out


CHECKS = [C18()]
