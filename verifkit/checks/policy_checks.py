"""C12 (retry / default policy), C14 (lifecycle events), C19 (artifact store receives final values once)."""
import itertools

from hypothesis import strategies as st

from verifkit import compile as C
from verifkit import engine as E
from verifkit import gen as G
from verifkit import oracles as O
from verifkit import ref as REF
from verifkit import runtime as R
from verifkit import spec as S
from verifkit.checks.engine_checks import BASE_FEATS
from verifkit.checks.engine_checks import EngineCheck
from verifkit.checks.engine_checks import _sanitize
from verifkit.checks.engine_checks import _tag
from verifkit.driver import Verdict
from verifkit.driver import ViolationFound

EPS = 1e-6


# ------------------------------------------------------------------------------------------------ C12
def oracle_retry_timing(o, program, refres, exact):
    """virtual time between a failed attempt and the next start of the same execution equals `delay`"""
    out = []
    idx = S.node_index(program)
    per = {}
    for e in o.bodies:
        per.setdefault(e['node'], []).append(e)
    for nid, ents in per.items():
        exp = refres['invocations'].get(nid, [])
        delay = idx[nid].get('delay') or 0
        for i in range(1, min(len(ents), len(exp))):
            if exp[i]['attempt'] != exp[i - 1]['attempt'] + 1 or exp[i]['epoch'] != exp[i - 1]['epoch']:
                continue
            prev, cur = ents[i - 1], ents[i]
            if prev.get('t_end') is None:
                continue
            gap = cur['t'] - prev['t_end']
            if gap < delay - EPS:
                out.append(('retry-too-early', f'{nid}: attempt {exp[i]["attempt"]} started {gap}s after the failed '
                                               f'attempt, delay={delay}'))
            elif exact and idx[nid]['mode'] not in ('thread', 'process') and gap > delay + EPS:
                # (for executor modes the engine learns about the failure when the completion is delivered, which the
                # schedule may place after other timers: only the lower bound applies there)
                out.append(('retry-too-late', f'{nid}: attempt {exp[i]["attempt"]} started {gap}s after the failed '
                                              f'attempt, delay={delay}'))
    # the delay separates attempts: what follows the LAST attempt (the default value) follows at once
    defaults = {}
    for d in o.trace:
        if d['kind'] == 'default':
            defaults.setdefault(d['node'], []).append(d)
    for nid, ds in defaults.items():
        if not exact or idx[nid]['mode'] in ('thread', 'process'):
            continue
        for d in ds:
            before = [e for e in per.get(nid, []) if e['seq'] < d['seq'] and e.get('t_end') is not None]
            if before and d['t'] - before[-1]['t_end'] > EPS:
                out.append(('delay-after-last-attempt', f'{nid}: get_default was called {d["t"] - before[-1]["t_end"]}s '
                                                        f'after the last attempt failed (delay={idx[nid].get("delay")})'))
    return out


def host_program(kind, cfg):
    """fixed host pipelines for the enumeration; the target node is 'T'"""
    def N(nid, params=(), mode='gated', **kw):
        d = {'id': nid, 'params': [list(p) for p in params], 'mode': mode}
        d.update(kw)
        return d

    t = dict(cfg)
    if kind == 'chain':
        nodes = [N('n0', mode='coro'), N('T', [('a', ['in', 'n0'])], **t), N('n2', [('a', ['in', 'T'])])]
        out = 'n2'
    elif kind == 'race':
        # a sibling with its own retry timer races with the target's timers
        nodes = [N('n0', mode='coro'), N('T', [('a', ['in', 'n0'])], **t),
                 N('S', [('a', ['in', 'n0'])], mode='thread', attempts=3, delay=0.5),
                 N('n3', [('a', ['in', 'T']), ('b', ['in', 'S'])], mode='inline')]
        out = 'n3'
    elif kind == 'cand':
        # the target sits inside the sub-pipeline of a candidate next to a sibling that fails, and is shared with the
        # next candidate: the policy of the target must be honoured in full although its first requester is lost
        nodes = [N('n0', mode='coro'), N('T', [('a', ['in', 'n0'])], **t),
                 N('S', [('a', ['in', 'n0'])], mode='gated'),
                 N('C1', [('a', ['in', 'T']), ('b', ['in', 'S'])]), N('F', [('a', ['in', 'T'])], mode='thread'),
                 N('n5', [('a', ['oneof', ['C1', 'F']])])]
        out = 'n5'
    else:  # 'oneof': the target is a candidate with a fallback
        nodes = [N('n0', mode='coro'), N('T', [('a', ['in', 'n0'])], **t), N('F', [('a', ['in', 'n0'])], mode='thread'),
                 N('n3', [('a', ['oneof', ['T', 'F']])])]
        out = 'n3'
    return {'nodes': nodes, 'output': out}


def enum_configs():
    for attempts in (None, 1, 2, 3):
        for delay in (None, 0, 0.5):
            for excs in (None, ['ErrA'], ['ErrA', 'ErrB'], ['ErrA2']):
                for use_default in (False, True):
                    for mode in ('gated', 'thread'):
                        yield {'attempts': attempts, 'delay': delay, 'exceptions': excs, 'use_default': use_default,
                               'mode': mode}


class C12(EngineCheck):
    id = 'C12'
    level = 'fault_enumeration'
    feats = ('fail', 'retry', 'default', 'fatal', 'oneof', 'switch', 'rec', 'generic')
    rule = ('(a) sampled: program with retry settings from the full product (attempts None/1..4, delay None/0/0.5/1/2.5, '
            'exceptions None/subsets, use_default) on nodes anywhere x per-invocation outcome sequences over {ok, ErrA, '
            'ErrB, ErrC, ErrA2 (a subclass of ErrA), Fatal} x 4 schedules with other nodes and timers racing; (b) enumerated: for fixed host '
            'pipelines (chain, racing sibling timer, one-of candidate, dependency of a losing candidate shared with the next one) EVERY configuration x EVERY outcome sequence up '
            'to length attempts+1 (quick: length <=2 on the chain host); oracle = small-step reference of the '
            'documented policy: number of invocations, identical kwargs on re-invocation, virtual time between a failed '
            'attempt and the next start = delay (exact under blocking-only schedules, >= otherwise; tolerance 1e-6 s), '
            'non-matching exceptions not retried, default called once with the same kwargs, else the last exception is '
            "the node's failure, Fatal neither retried nor defaulted; non-trivial = at least one failing attempt")
    floors = {'failing-attempt': 0.5}

    def strategy(self, tier):
        kw = self.gen_kwargs(tier)

        @st.composite
        def s(draw):
            case = draw(G.cases(**kw))
            # make retries matter: nodes with a retry config get a failing prefix more often
            for n in case['program']['nodes']:
                if (n.get('attempts') or n.get('use_default')) and draw(st.integers(0, 2)) != 0:
                    k = draw(st.integers(1, 4))
                    outs = [draw(st.sampled_from(['ErrA', 'ErrA', 'ErrA2', 'ErrB', 'ErrC', 'ok'])) for _ in range(k)]
                    beh = case['variant']['nodes'].setdefault(n['id'], {})
                    beh['outcomes'] = outs
            return _sanitize(case)

        return s()

    def oracle(self, case, refres, obs):
        v = []
        scheds = [None] + list(case.get('scheds', []))
        for i, o in enumerate(obs):
            v += _tag(O.oracle_outcome(o, refres), i)
            if o.status != 'done':
                continue
            v += _tag(O.oracle_executed(o, refres), i)
            v += _tag(O.oracle_kwargs(o, refres), i)
            sc = scheds[i]
            exact = sc is None or sc.get('kind') == 'rank' or not sc.get('tape')
            if not refres['ambiguous']:
                v += _tag(oracle_retry_timing(o, case['program'], refres, exact), i)
        return v

    def _failing_attempt(self, refres):
        return any(i['outcome'] not in ('ok', 'rec') for inv in refres['invocations'].values() for i in inv)

    def nontrivial(self, case, refres, obs):
        return self._failing_attempt(refres)

    def classes(self, case, refres, obs):
        cl = super().classes(case, refres, obs)
        if self._failing_attempt(refres):
            cl.append('failing-attempt')
        if any(i['outcome'] == 'Fatal' for inv in refres['invocations'].values() for i in inv):
            cl.append('fatal')
        if any((n.get('delay') or 0) > 0 for n in case['program']['nodes']):
            cl.append('delay>0')
        return cl

    def extra(self, tier, seed, stats):
        shard, nshards = getattr(self, 'shard', (0, 1))
        hosts = ('chain', 'cand') if tier == 'quick' else ('chain', 'race', 'oneof', 'cand')
        alphabet = ('ok', 'ErrA', 'ErrA2', 'ErrB', 'ErrC', 'Fatal')
        n = 0
        enumerated = 0
        for host in hosts:
            for cfg in enum_configs():
                maxlen = (cfg['attempts'] or 1) + 1
                if tier == 'quick':
                    maxlen = min(maxlen, 2)
                for ln in range(1, maxlen + 1):
                    for seq in itertools.product(alphabet, repeat=ln):
                        n += 1
                        if n % nshards != shard:
                            continue
                        if tier == 'quick' and n % 3:
                            continue
                        prog = host_program(host, cfg)
                        var = {'x': 0, 'nodes': {'T': {'outcomes': list(seq), 'tail': 'ok'}}}
                        if host == 'cand':
                            var['nodes']['S'] = {'outcomes': [], 'tail': 'ErrC'}
                        case = {'program': prog, 'variant': var,
                                'scheds': [{'kind': 'rank', 'ranks': {'T': 9, 'S': 1}, 'timer': 5}]}
                        verdict = self.examine(case)
                        verdict.classes.append('enumerated')
                        stats.record(self, case, verdict)
                        enumerated += 1
                        if verdict.violations:
                            raise ViolationFound(case, verdict.violations)
        stats.extra['enumerated_policy_cases'] = enumerated
        stats.extra['exhaustive'] = tier == 'thorough'


# ------------------------------------------------------------------------------------------------ C14
def oracle_events(o, program, refres, n_mgrs):
    """grammar check over the merged history of the recording event managers"""
    out = []
    comp = o.compiled
    evs = [e for e in o.trace if e['kind'] == 'event']
    if not evs:
        return [('no-events', 'event managers saw nothing')]
    # both managers see the same sequence (registration order: manager 0 first for each emission)
    per = {}
    for e in evs:
        per.setdefault(e['mgr'], []).append((e['hook'], e['node'], repr(e.get('error')), id(e.get('result'))))
    if len(per) != n_mgrs:
        out.append(('manager-missed-events', f'{sorted(per)} of {n_mgrs} managers saw events'))
    # managers are called one after another for every emission; when the run ends while an earlier manager is
    # still inside its callback, later managers never see that event: no cross-manager agreement is asserted
    for mgr in sorted(per):
        out += _events_one_manager(o, [e for e in evs if e['mgr'] == mgr], comp, last=mgr == n_mgrs - 1)
    return out


def undelivered_bodies(o):
    fired = {l for l in o.fire_log if l[0] == 'exec'}
    pending = sorted((l for l in o.pending_ext if l[0] == 'exec'), key=lambda l: l[3])
    out = set()
    for b in o.bodies:
        labs = [l for l in pending if l[2] == b['node'] and l[3] < b['seq']]
        if labs:
            lab = max(labs, key=lambda l: l[3])
            later_fired = [f for f in fired if f[2] == b['node'] and lab[3] < f[3] < b['seq']]
            if not later_fired:
                out.add(b['seq'])
    return out


def _events_one_manager(o, ev0, comp, last=True):
    out = []
    evs = ev0
    undelivered = undelivered_bodies(o)
    hooks = [e['hook'] for e in ev0]
    if hooks[0] != 'on_pipeline_start' or hooks.count('on_pipeline_start') != 1:
        out.append(('pipeline-start-misplaced', f'{hooks[:4]}... count={hooks.count("on_pipeline_start")}'))
    if o.outcome[0] in ('value', 'error'):
        if hooks[-1] != 'on_pipeline_complete' or hooks.count('on_pipeline_complete') != 1:
            out.append(('pipeline-complete-misplaced', f'...{hooks[-3:]} count={hooks.count("on_pipeline_complete")}'))
        else:
            res = ev0[-1]['result']
            if res is not o.result and res != o.result:
                out.append(('pipeline-complete-wrong-result', f'{res!r} vs returned {o.result!r}'))
        # nothing after pipeline_complete from any manager
        last_seq = max(e['seq'] for e in evs if e['hook'] == 'on_pipeline_complete')
        mgr = evs[0]['mgr']
        late = [e for e in o.trace if e['seq'] > last_seq
                and ((e['kind'] == 'event' and e['mgr'] == mgr) or e['kind'] == 'body')]
        if late:
            out.append(('event-after-pipeline-complete', f'{late[0]["kind"]} {late[0].get("hook")} {late[0].get("node")}'))
    # per node: start (complete(err))* complete(final)
    by_node = {}
    for e in ev0:
        if e['hook'] in ('on_node_start', 'on_node_complete'):
            by_node.setdefault(comp.to_spec_id(e['node']), []).append(e)
    bodies = {}
    for b in o.bodies:
        bodies.setdefault(b['node'], []).append(b)
    defaults = {}
    for d in o.trace:
        if d['kind'] == 'default':
            defaults.setdefault(d['node'], []).append(d)
    ended = o.rec.end_seq or (1 << 60)
    for nid, es in by_node.items():
        execs = []
        for e in es:
            if e['hook'] == 'on_node_start':
                execs.append({'start': e, 'completes': []})
            elif not execs:
                out.append(('complete-without-start', f'{nid}'))
            else:
                execs[-1]['completes'].append(e)
        nb = bodies.get(nid, [])
        bi = 0
        for x in execs:
            # attempts of this execution: bodies started after this start event and before the next start event
            nxt = [y['start']['seq'] for y in execs if y['start']['seq'] > x['start']['seq']]
            hi = min(nxt) if nxt else 1 << 60
            mine = [b for b in nb if x['start']['seq'] < b['seq'] < hi]
            comps = x['completes']
            if not comps:
                # an execution cut short by the end of the run may lack its complete (also in a successful run: nodes
                # of a losing candidate may still be in flight). If its value HAD been consumed, the delivery rule
                # below reports it.
                started_default = any(x['start']['seq'] < d['seq'] < hi for d in defaults.get(nid, []))
                if last and x['start'].get('done') is not None and not mine and not started_default:
                    # (judged on the manager that is called last: the run may end while an earlier manager has
                    # returned and a later one is still inside its callback)
                    # the callback returned, so the engine went on: the very next thing it does for the node is to
                    # invoke its body (or its default). An announced execution that never takes place and is never
                    # completed is not "one on_node_start followed by one on_node_complete per attempt".
                    out.append(('start-event-without-execution', f'{nid}: on_node_start was delivered but neither '
                                                                 f'a body / default invocation nor an '
                                                                 f'on_node_complete followed'))
                continue
            forced_default = not mine and any(x['start']['seq'] < d['seq'] < hi for d in defaults.get(nid, []))
            # an attempt is finished for the engine when its body returned AND (executor modes) the completion was
            # delivered to the loop; a body the fake executor ran at submit time whose result never reached the loop
            # before the run ended is an attempt in flight
            finished = [b for b in mine if b.get('outcome') is not None and b['seq'] not in undelivered]
            if len(finished) < len(mine):
                # the run ended while an attempt was in flight: that attempt has no complete
                if len(comps) != len(finished):
                    out.append(('complete-count', f'{nid}: {len(finished)} finished attempts but {len(comps)} '
                                                  f'on_node_complete'))
                for c in comps:
                    if c.get('error') is None:
                        out.append(('intermediate-complete-without-error', f'{nid}'))
                continue
            if mine and len(comps) == len(mine) - 1 and all(c.get('error') is not None for c in comps):
                # the last attempt returned (or its completion was delivered) in the very loop step in which the run
                # ended: the engine never got to process it. Legal as long as nobody consumed its value.
                last = mine[-1]
                consumed = last.get('outcome') == 'ok' and any(
                    R.is_value(v) and R.canon(v) == R.canon(last.get('value'))
                    for b in o.bodies for v in b['kwargs'].values())
                if not consumed:
                    continue
            if len(comps) != max(1, len(mine)) and not forced_default:
                out.append(('complete-count', f'{nid}: {len(mine)} attempts but {len(comps)} on_node_complete'))
            for c in comps[:-1]:
                if c.get('error') is None:
                    out.append(('intermediate-complete-without-error', f'{nid}'))
            final = comps[-1]
            produced = (mine and mine[-1].get('outcome') in ('ok', 'rec')) or any(
                x['start']['seq'] < d['seq'] < hi for d in defaults.get(nid, []))
            if produced and final.get('error') is not None:
                out.append(('final-complete-reports-error-for-value', f'{nid}: {final.get("error")!r}'))
            if not produced and mine and final.get('error') is None:
                out.append(('final-complete-hides-error', f'{nid}'))
            if not produced and mine and final.get('error') is not None and mine[-1].get('exc') is not None \
                    and final['error'] is not mine[-1]['exc']:
                out.append(('final-complete-wrong-error', f'{nid}: {final["error"]!r} vs {mine[-1]["exc"]!r}'))
            bi += len(mine)
        if len(execs) == 0 and nb:
            out.append(('body-without-start-event', f'{nid}'))
    for nid, nb in bodies.items():
        if nid not in by_node:
            out.append(('body-without-start-event', f'{nid}'))
    # a node's value is never delivered to a consumer before its successful on_node_complete
    ok_complete = {}
    for e in ev0:
        if e['hook'] == 'on_node_complete' and e.get('error') is None and e.get('done') is not None:
            # the event has been delivered when the (possibly slow) callback has returned
            ok_complete.setdefault(comp.to_spec_id(e['node']), []).append(e['done'])
    starts = {}
    for e in ev0:
        if e['hook'] == 'on_node_start':
            starts.setdefault(comp.to_spec_id(e['node']), []).append(e['seq'])
    for b in o.bodies:
        # the engine collects the arguments of a node BEFORE it announces its start: the values had been delivered
        # when the consumer's on_node_start was emitted (the body may begin much later behind a slow callback)
        mine_starts = [q for q in starts.get(b['node'], []) if q < b['seq']]
        delivered_at = max(mine_starts) if mine_starts else b['seq']
        for kw, v in b['kwargs'].items():
            if R.is_value(v) and v[1] in bodies and v[1] != b['node']:
                if not any(s < delivered_at for s in ok_complete.get(v[1], [])):
                    out.append(('value-delivered-before-complete-event',
                                f'{b["node"]}.{kw} received the value of {v[1]} before its successful '
                                f'on_node_complete had been delivered (callback returned)'))
    del ended
    return out


@st.composite
def recording_managers(draw):
    store = {'gated': draw(st.booleans()), 'write_once': False} if draw(st.integers(0, 2)) == 0 else None
    return {'ems': [{'gated': draw(st.booleans())} for _ in range(draw(st.integers(1, 2)))], 'store': store}


@st.composite
def delivery_window_templates(draw, tier):
    """directed shape for the delivery rule: a join node C(A, B) under suspending collaborators; the event callbacks /
    saves made on behalf of A are withheld until k other deliveries happened, for every k: B completes (and wakes C)
    while the engine is still busy delivering A's completion"""
    def N(nid, params=(), mode='gated', **kw):
        d = {'id': nid, 'params': [list(p) for p in params], 'mode': mode}
        d.update(kw)
        return d
    ext = st.sampled_from(['gated', 'gated', 'thread', 'coro', 'inline'])
    nodes = [N('n0', mode='coro')]

    def add(params, **kw):
        nid = f'n{len(nodes)}'
        nodes.append(N(nid, params, mode=draw(ext), **kw))
        return nid

    def chain(src, k):
        for _ in range(k):
            src = add([('k0', ['in', src])])
        return src

    a = chain('n0', draw(st.integers(1, 2)))
    b = chain('n0', draw(st.integers(1, 3)))
    params = [('k0', ['in', a]), ('k1', ['in', b])]
    if draw(st.booleans()):
        params.append(('k2', ['in', chain('n0', 1)]))
    c = add(params)
    out = chain(c, draw(st.integers(0, 1)))
    prog = {'nodes': nodes, 'output': out}
    var = {'x': 0, 'nodes': {}}
    if draw(st.integers(0, 3)) == 0:
        nodes[int(a[1:])].update(attempts=2)
        var['nodes'][a] = {'outcomes': ['ErrA']}
    ems = [{'gated': True}] + [{'gated': draw(st.booleans())} for _ in range(draw(st.integers(0, 1)))]
    if draw(st.booleans()):
        ems.reverse()
    store = {'gated': True, 'write_once': False} if draw(st.integers(0, 2)) == 0 else None
    scheds = [{'kind': 'delay', 'node': a, 'after': k, 'what': 'collab'} for k in range(1, 10)]
    return {'program': prog, 'variant': var, 'scheds': scheds, 'collab': {'ems': ems, 'store': store},
            'template': 'delivery-window'}


class C14(EngineCheck):
    id = 'C14'
    rule = ('case = program x variant x 4 schedules with 1-2 recording event managers (immediate or gated, never '
            'raising); grammar over the merged history: pipeline_start first and once, pipeline_complete last and once '
            'with the result run returned, per node execution start (complete(error))* complete(final) with one '
            'complete per attempt, final.error is None iff the node produced a value or default else the raised '
            "instance, a consumer body starts after its producer's successful complete, all managers see the same "
            'sequence; non-trivial = the run contains a retry, a contained failure, a re-iteration or an early '
            'termination')
    floors = {'eventful': 0.3}

    def strategy(self, tier):
        kw = self.gen_kwargs(tier)

        @st.composite
        def s(draw):
            case = draw(G.cases(collab_scheds=True, **kw))
            case['collab'] = draw(recording_managers())
            return _sanitize(case)

        @st.composite
        def shared_failure(draw):
            # a failing node shared between a losing candidate and other consumers (also as the input of a selected
            # switch case): nodes that are skipped because a dependency failed have no events at all
            from verifkit.checks.engine_checks import shared_failure_templates

            case = draw(shared_failure_templates(tier))
            case['scheds'] = case['scheds'][::3]
            case['collab'] = draw(recording_managers())
            return case

        return st.one_of(*([s()] * 15), delivery_window_templates(tier), shared_failure())

    def oracle(self, case, refres, obs):
        v = []
        for i, o in enumerate(obs):
            t = O.oracle_termination(o)
            if t:
                v += _tag(t, i)
                continue
            v += _tag(oracle_events(o, case['program'], refres, len(case['collab']['ems'])), i)
        return v

    def _eventful(self, refres):
        return (any(i['attempt'] > 1 or i['epoch'] > 0 for inv in refres['invocations'].values() for i in inv)
                or bool(refres['maybe']) or not refres['ok'])

    def nontrivial(self, case, refres, obs):
        return self._eventful(refres)

    def classes(self, case, refres, obs):
        cl = super().classes(case, refres, obs)
        if self._eventful(refres):
            cl.append('eventful')
        if any(e.get('gated') for e in case['collab']['ems']):
            cl.append('gated-manager')
        if len(case['collab']['ems']) == 2:
            cl.append('two-managers')
        return cl


# ------------------------------------------------------------------------------------------------ C19
def oracle_store(o, program, refres):
    from ml_pipeline_engine.types import Recurrent

    out = []
    comp = o.compiled
    saves = [e for e in o.trace if e['kind'] == 'save']
    per = {}
    for s in saves:
        nid = comp.to_spec_id(s['node'])
        per.setdefault(nid, []).append(s)
        if isinstance(s['value'], Recurrent):
            out.append(('saved-recurrent-marker', f'{nid}: {s["value"]!r}'))
        if isinstance(s['value'], BaseException):
            out.append(('saved-contained-failure', f'{nid}: {s["value"]!r}'))
    if refres['ambiguous'] or not refres['ok']:
        return out
    if o.outcome[0] != 'value':
        return out  # reported by the outcome oracle
    for nid, ss in per.items():
        if len(ss) > 1:
            out.append(('saved-more-than-once', f'{nid}: {len(ss)} saves'))
    for nid in refres['certain']:
        if nid not in refres['finals']:
            continue
        if nid not in per:
            out.append(('final-value-not-saved', f'{nid}'))
            continue
        if per[nid][-1].get('done') is None:
            # a (slow) store had been handed the value but the call never returned: nothing was stored
            out.append(('final-value-save-never-completed',
                        f'{nid}: save() was entered but the run returned before it completed (the call was cancelled)'))
        if R.canon(per[nid][-1]['value']) != R.canon(refres['finals'][nid]):
            out.append(('saved-value-differs-from-delivered',
                        f'{nid}: saved {R.canon(per[nid][-1]["value"])} final {R.canon(refres["finals"][nid])}'))
    return out


class C19(EngineCheck):
    id = 'C19'
    rule = ('case = program (shared nodes reached from several scopes, recurrent subgraphs, contained failures) x '
            'variant x 4 schedules with a recording write-once store (second save of an id raises '
            'ArtifactAlreadyExists, like the filesystem store; immediate or gated); in a run the reference calls '
            'successful: exactly one save per executed node, equal to the final value its consumers received; never a '
            'Recurrent marker or an exception instance; the run succeeds exactly as without the store; non-trivial = a '
            'node shared across >=2 activated scopes, a re-iteration, or a contained failure')
    floors = {'store-relevant': 0.25}
    p_feat = 55
    feats = ('switch', 'oneof', 'rec', 'fail', 'default', 'retry', 'generic', 'falsy')

    def strategy(self, tier):
        kw = self.gen_kwargs(tier)

        @st.composite
        def s(draw):
            case = draw(G.cases(collab_scheds=True, **kw))
            case['collab'] = {'ems': [], 'store': {'gated': draw(st.booleans()), 'write_once': True}}
            case = _sanitize(case)
            # known finding F16: nodes of a recurrent subgraph are saved once per iteration. The searched region
            # keeps recurrent subgraphs but does not let them re-iterate (counted as excluded_by_construction).
            for nid, beh in case['variant']['nodes'].items():
                if beh.get('rec_n'):
                    beh['rec_n'] = 0
                    case['excluded'] = list(case.get('excluded', [])) + ['F16']
            return case

        return s()

    def oracle(self, case, refres, obs):
        v = []
        for i, o in enumerate(obs):
            v += _tag(O.oracle_outcome(o, refres), i)
            if o.status != 'done':
                continue
            v += _tag(oracle_store(o, case['program'], refres), i)
        return v

    def _relevant(self, case, refres):
        from verifkit.checks.engine_checks import shared_nodes

        return (bool(shared_nodes(case['program'], refres)) or bool(refres['maybe'])
                or any(i['epoch'] > 0 for inv in refres['invocations'].values() for i in inv))

    def nontrivial(self, case, refres, obs):
        return self._relevant(case, refres)

    def classes(self, case, refres, obs):
        cl = super().classes(case, refres, obs)
        if self._relevant(case, refres):
            cl.append('store-relevant')
        return cl


CHECKS = [C12(), C14(), C19()]
