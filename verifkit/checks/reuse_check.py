"""C07: a chart is reusable (stateful: histories of runs on one chart object)."""
import copy

from hypothesis import strategies as st
from hypothesis.stateful import RuleBasedStateMachine
from hypothesis.stateful import initialize
from hypothesis.stateful import invariant
from hypothesis.stateful import precondition
from hypothesis.stateful import rule

from verifkit import compile as C
from verifkit import engine as E
from verifkit import gen as G
from verifkit import oracles as O
from verifkit import ref as REF
from verifkit import runtime as R
from verifkit import spec as S
from verifkit.checks.engine_checks import BASE_FEATS
from verifkit.checks.engine_checks import EngineCheck
from verifkit.driver import Check
from verifkit.driver import Verdict
from verifkit.driver import ViolationFound


def snapshot(dag, classes):
    g = dag.graph
    nodes = sorted((str(n), sorted((str(k), repr(v)) for k, v in d.items())) for n, d in g.nodes(data=True))
    edges = sorted((str(u), str(v), sorted((str(k), repr(x)) for k, x in d.items())) for u, v, d in g.edges(data=True))
    nm = sorted((k, f'{v.__module__}.{v.__qualname__}') for k, v in dag.node_map.items())
    cls = []
    for nid, c in sorted(classes.items()):
        for k in c.__mro__[:2]:
            attrs = sorted((a, repr(v)) for a, v in vars(k).items() if not a.startswith('__') and not callable(v))
            ann = sorted((a, repr(v)) for a, v in getattr(vars(k).get('process'), '__annotations__', {}).items())
            cls.append((nid, k.__name__, attrs, ann))
    flags = (dag.input_node, dag.output_node, dag.is_process_pool_needed, dag.is_thread_pool_needed)
    return {'nodes': nodes, 'edges': edges, 'node_map': nm, 'classes': cls, 'flags': flags}


def snap_diff(a, b):
    out = []
    for k in a:
        if a[k] != b[k]:
            xa = a[k] if isinstance(a[k], list) else [a[k]]
            xb = b[k] if isinstance(b[k], list) else [b[k]]
            d = [x for x in xb if x not in xa][:3]
            out.append(f'{k}: now {d}')
    return out


def exec_summary(o):
    return sorted(((e['node'], R.canon(e['kwargs'])) for e in o.bodies), key=repr)


class HistoryRunner:
    """executes a history op by op; the same object serves the state machine and the plain replay"""

    def __init__(self, program):
        self.program = program
        self.comp = C.compile_program(program)
        self.chart = self.comp.build_chart()
        self.base = snapshot(self.chart.entrypoint, self.comp.classes)
        self.ops = []
        self.runs = 0
        self.facts = set()

    def step(self, op):
        self.ops.append(op)
        prog, var, sched = self.program, op['variant'], op['sched']
        refres = REF.reference(prog, var)
        viol = []
        ikw = {'x': var.get('x', 0), 'tag': 'r0'}
        before = copy.deepcopy(ikw)
        if op['op'] == 'cancel':
            probe = E.run_once(prog, var, sched, compiled=self.comp, refres=refres)
            at = 1 + (op['at'] % max(1, (probe.done_iter or probe.iters)))
            E.run_once(prog, var, sched, compiled=self.comp, chart=self.chart, refres=refres, cancel_at=at,
                       input_kwargs=ikw)
            self.runs += 2
            self.facts.add('cancelled-run')
        else:
            shared = E.run_once(prog, var, sched, compiled=self.comp, chart=self.chart, refres=refres,
                                input_kwargs=ikw)
            fresh = E.run_once(prog, var, sched, compiled=self.comp, refres=refres)
            self.runs += 2
            n = len(self.ops)
            if E.outcome_key(shared) != E.outcome_key(fresh):
                viol.append(('reused-chart-differs-from-fresh',
                             f'run {n}: reused {E.outcome_key(shared)} fresh {E.outcome_key(fresh)}'))
            elif shared.outcome[0] == 'error' and len(refres['causes']) == 1 and not refres['ambiguous'] and (
                    O.classify_error(shared.outcome[1], shared) != O.classify_error(fresh.outcome[1], fresh)):
                # with several admissible causes the first failure to be noticed wins (any member is correct)
                viol.append(('reused-chart-differs-from-fresh',
                             f'run {n}: cause {O.classify_error(shared.outcome[1], shared)} vs '
                             f'{O.classify_error(fresh.outcome[1], fresh)}'))
            elif refres['ok'] and exec_summary(shared) != exec_summary(fresh):
                viol.append(('reused-chart-executes-differently', f'run {n}: body invocations differ from a fresh chart'))
            viol += [(s, f'run {n}: {d}') for s, d in O.oracle_outcome(shared, refres)]
            if not refres['ok']:
                self.facts.add('failing-run')
            if refres['maybe']:
                self.facts.add('losing-candidate')
            if any(i['epoch'] > 0 for v in refres['invocations'].values() for i in v):
                self.facts.add('re-iterated')
        if ikw != before:
            viol.append(('input-kwargs-mutated', f'caller dict now {ikw!r}, was {before!r}'))
        now = snapshot(self.chart.entrypoint, self.comp.classes)
        if now != self.base:
            viol.append(('chart-state-changed', '; '.join(snap_diff(self.base, now))[:600]))
        return viol

    def case(self):
        return {'program': self.program, 'ops': list(self.ops)}

    def nontrivial(self):
        variants = {S.digest(o['variant']) for o in self.ops}
        return len(self.ops) >= 2 and len(variants) >= 2 and bool(self.facts & {'losing-candidate', 're-iterated'})


@st.composite
def scope_switching_programs(draw):
    """directed history shape: ONE sub-pipeline (a recurrent subgraph, or a plain shared chain) is reachable from
    different KINDS of scope - a plain consumer, a one-of candidate, a nested candidate - which sit in different cases
    of a switch, so that consecutive runs of the chart reach it from different scopes (different label per run) while
    a node of it fails on its first or on a later invocation. Whatever the engine derives for such a sub-pipeline in
    one run must not leak into the next."""
    def N(nid, params=(), mode='gated', **kw):
        d = {'id': nid, 'params': [list(p) for p in params], 'mode': mode}
        d.update(kw)
        return d
    ext = st.sampled_from(['gated', 'gated', 'coro', 'thread'])
    nodes = [N('n0', mode='coro')]

    def add(params, **kw):
        nid = f'n{len(nodes)}'
        nodes.append(N(nid, params, mode=draw(ext), **kw))
        return nid

    recurrent = draw(st.integers(0, 3)) != 0
    start = add([('k0', ['in', 'n0'])], additional_data=recurrent)
    mid = add([('k0', ['in', start])]) if draw(st.booleans()) else start
    dest = add([('k0', ['in', mid])], rec_dest=recurrent, use_default=recurrent and draw(st.booleans()))
    maxit = draw(st.integers(1, 2))
    mark = ['rec', start, dest, maxit] if recurrent else ['in', dest]
    plain = add([('k0', list(mark))])
    cand = add([('k0', list(mark))])
    fallback = add([('k0', ['in', 'n0'])])
    via_oneof = add([('k0', ['oneof', [cand, fallback]])])
    cases = [['L0', plain], ['L1', via_oneof]]
    if draw(st.booleans()):
        cand2 = add([('k0', list(mark))])
        inner = add([('k0', ['oneof', [cand2]])])
        fb2 = add([('k0', ['in', 'n0'])])
        cases.append(['L2', add([('k0', ['oneof', [inner, fb2]])])])
    dec = add([('k0', ['in', 'n0'])])
    out = add([('k0', ['sw', 'sw_scope', dec, cases])])
    prog = {'nodes': nodes, 'output': out}
    prog['_directed'] = {'dec': dec, 'labels': [c[0] for c in cases], 'path': sorted({start, mid, dest}),
                         'dest': dest, 'recurrent': recurrent, 'maxit': maxit}
    return prog


@st.composite
def scope_switching_variants(draw, d):
    var = {'x': draw(st.integers(0, 2)), 'nodes': {d['dec']: {'label': draw(st.sampled_from(d['labels']))}}}
    if d['recurrent']:
        var['nodes'][d['dest']] = {'rec_n': draw(st.integers(0, d['maxit'] + 1))}
    if draw(st.integers(0, 3)) != 0:
        who = draw(st.sampled_from(d['path']))
        k = draw(st.integers(0, 2))
        var['nodes'].setdefault(who, {})['outcomes'] = ['ok'] * k + ['ErrA']
    return var


class C07(Check):
    id = 'C07'
    rule = ('stateful (Hypothesis RuleBasedStateMachine): initialize draws a program and builds ONE chart; rules run '
            '(variant, schedule) / run_cancelled(step) execute on that chart and, for comparison, on a freshly built '
            'chart under the same schedule; after every step: outcomes, causes and body invocations equal the fresh '
            "chart's and the reference; deep snapshots of DAG.graph (all node / edge attributes), node_map, node class "
            "dicts and the caller's input_kwargs are unchanged; 2-6 runs per history; non-trivial = >=2 runs with "
            'different variants on a program whose one-of had a losing candidate or whose recurrent subgraph iterated; '
            'distinct = digest of (program, ops)')
    quick_examples = 500
    thorough_examples = 5000
    max_steps = 6
    assumptions = EngineCheck.assumptions

    def examine(self, case):
        hr = HistoryRunner(case['program'])
        viol = []
        for op in case['ops']:
            viol = hr.step(op)
            if viol:
                break
        classes = sorted(hr.facts) + [f'runs:{len(hr.ops)}']
        sample = {'program': S.compact(case['program']),
                  'ops': [{'op': o['op'], 'variant': o['variant'], 'sched': o['sched']} for o in hr.ops][:4]}
        return Verdict(viol, hr.nontrivial(), classes, sample, runs=hr.runs)

    def machine(self, tier, stats):
        check = self
        hi = 8 if tier == 'quick' else 10

        class ReuseMachine(RuleBasedStateMachine):
            def __init__(self):
                super().__init__()
                self.hr = None

            @initialize(prog=st.one_of(*([G.programs(feats=BASE_FEATS, min_nodes=2, max_nodes=hi, clean=True,
                                                     p_feat=45)] * 7), scope_switching_programs(), scope_switching_programs()))
            def setup(self, prog):
                self.directed = prog.pop('_directed', None)
                self.hr = HistoryRunner(prog)

            def _do(self, op):
                viol = self.hr.step(op)
                if viol:
                    raise ViolationFound(self.hr.case(), viol)

            @rule(data=st.data())
            def run(self, data):
                var = data.draw(G.variants(self.hr.program, feats=BASE_FEATS))
                sched = data.draw(G.schedules(self.hr.program))
                self._do({'op': 'run', 'variant': var, 'sched': sched})

            @precondition(lambda self: getattr(self, 'directed', None) is not None)
            @rule(data=st.data())
            def run_directed(self, data):
                var = data.draw(scope_switching_variants(self.directed))
                sched = data.draw(G.schedules(self.hr.program))
                self._do({'op': 'run', 'variant': var, 'sched': sched})

            @rule(data=st.data(), at=st.integers(0, 200))
            def run_cancelled(self, data, at):
                var = data.draw(G.variants(self.hr.program, feats=BASE_FEATS))
                sched = data.draw(G.schedules(self.hr.program))
                self._do({'op': 'cancel', 'variant': var, 'sched': sched, 'at': at})

            @invariant()
            def snapshots_equal(self):
                if self.hr is None:
                    return
                now = snapshot(self.hr.chart.entrypoint, self.hr.comp.classes)
                if now != self.hr.base:
                    raise ViolationFound(self.hr.case(), [('chart-state-changed',
                                                           '; '.join(snap_diff(self.hr.base, now))[:600])])

            def teardown(self):
                if self.hr is not None and self.hr.ops:
                    hr = self.hr
                    classes = sorted(hr.facts) + [f'runs:{len(hr.ops)}']
                    sample = {'program': S.compact(hr.program),
                              'ops': [{'op': o['op'], 'variant': o['variant'], 'sched': o['sched']}
                                      for o in hr.ops][:4]}
                    stats.record(check, hr.case(), Verdict([], hr.nontrivial(), classes, sample, runs=hr.runs))

        return ReuseMachine


CHECKS = [C07()]
