"""Checks that run generated programs on the engine under the schedule-owning virtual loop."""
import itertools

from hypothesis import strategies as st

from verifkit import compile as C
from verifkit import engine as E
from verifkit import findings as F
from verifkit import gen as G
from verifkit import oracles as O
from verifkit import ref as REF
from verifkit import runtime as R
from verifkit import spec as S
from verifkit.driver import Check
from verifkit.driver import Verdict

BASE_FEATS = ('switch', 'oneof', 'rec', 'fail', 'retry', 'falsy', 'unknown_label', 'generic', 'default')


def _sanitize(case):
    p, v, applied = F.sanitize(case['program'], case['variant'])
    case = dict(case)
    case['program'], case['variant'] = p, v
    if applied:
        case['excluded'] = applied
    return case


def fire_order(o):
    return [(l[0], l[2]) if l[0] != 'time' else ('time',) for l in o.fire_log]


class EngineCheck(Check):
    feats = BASE_FEATS
    n_scheds = 3
    quick_nodes = (2, 8)
    thorough_nodes = (2, 12)
    p_feat = 35
    quick_examples = 1200
    thorough_examples = 5000
    assumptions = (
        'CPython 3.12 BaseEventLoop._run_once (ready FIFO, timer heap) is the trusted scheduler core',
        'external completions are delivered at loop-iteration boundaries only',
        'programs are inside the well-formed domain W1-W7 of DESIGN.md and outside the known-finding shapes',
        'the reference interpreter is my reading of the documented dataflow semantics',
    )

    gen_extra = {}

    def gen_kwargs(self, tier):
        lo, hi = self.quick_nodes if tier == 'quick' else self.thorough_nodes
        kw = dict(feats=self.feats, clean=True, n_scheds=self.n_scheds, min_nodes=lo, max_nodes=hi,
                  p_feat=self.p_feat)
        kw.update(self.gen_extra)
        return kw

    def strategy(self, tier):
        return G.cases(**self.gen_kwargs(tier)).map(_sanitize)

    # -- hooks
    def oracle(self, case, refres, obs):
        raise NotImplementedError

    def nontrivial(self, case, refres, obs):
        return True

    def classes(self, case, refres, obs):
        prog = case['program']
        cl = []
        for k in ('sw', 'oneof', 'rec'):
            if S.has_kind(prog, k):
                cl.append('mark:' + k)
        if not refres['ok']:
            cl.append('ref-fails')
        if refres['maybe']:
            cl.append('contained-failure')
        if any(i['attempt'] > 1 for v in refres['invocations'].values() for i in v):
            cl.append('retried')
        if any(i['epoch'] > 0 for v in refres['invocations'].values() for i in v):
            cl.append('re-iterated')
        if refres['defaults']:
            cl.append('default-used')
        if refres['ambiguous']:
            cl.append('ref-ambiguous')
        if max(o.max_outstanding for o in obs) >= 2:
            cl.append('outstanding>=2')
        if len({tuple(fire_order(o)) for o in obs}) > 1:
            cl.append('orders-differ')
        return cl

    def sample(self, case, refres, obs):
        o = obs[-1]
        return {'program': S.compact(case['program'], case['variant']),
                'sched': case['scheds'][-1] if case.get('scheds') else None,
                'deliveries': [list(map(str, f)) for f in fire_order(o)][:12],
                'outcome': str(E.outcome_key(o)),
                'reference': 'ok' if refres['ok'] else str(refres['causes'])}

    def runs(self, case, refres, comp):
        prog, var = case['program'], case['variant']
        obs = []
        for sched in [None] + list(case.get('scheds', [])):
            obs.append(E.run_once(prog, var, sched, compiled=comp, refres=refres, collab=case.get('collab')))
        return obs

    def examine(self, case):
        prog, var = case['program'], case['variant']
        refres = REF.reference(prog, var)
        comp = C.compile_program(prog)
        obs = self.runs(case, refres, comp)
        viol = self.oracle(case, refres, obs)
        return Verdict(viol, self.nontrivial(case, refres, obs), self.classes(case, refres, obs),
                       self.sample(case, refres, obs), runs=len(obs), excluded=case.get('excluded', ()))


def draw_cases(seed, n, **kw):
    """n generated cases outside of a @given test (for systematic sub-explorations)"""
    from hypothesis import HealthCheck
    from hypothesis import Phase
    from hypothesis import given
    from hypothesis import seed as hseed
    from hypothesis import settings

    out = []

    @hseed(seed)
    @settings(max_examples=n, database=None, deadline=None, phases=[Phase.generate],
              suppress_health_check=list(HealthCheck))
    @given(G.cases(**kw))
    def collect(case):
        out.append(case)

    collect()
    return out


def draw_strategy(seed, n, strategy):
    """n values of an arbitrary strategy outside of a @given test"""
    from hypothesis import HealthCheck
    from hypothesis import Phase
    from hypothesis import given
    from hypothesis import seed as hseed
    from hypothesis import settings

    out = []

    @hseed(seed)
    @settings(max_examples=n, database=None, deadline=None, phases=[Phase.generate],
              suppress_health_check=list(HealthCheck))
    @given(strategy)
    def collect(x):
        out.append(x)

    collect()
    return out


def enumerate_schedules(prog, var, comp, refres, budget=5000, collab=None):
    """depth-first re-execution over ALL index tapes of one program: the choice log of a run tells how many
    options every choice point had; the last position with an untried option is incremented and the suffix
    dropped. Yields (tape, observation); returns after `budget` runs (exhausted=False then)."""
    tape = []
    runs = 0
    while True:
        o = E.run_once(prog, var, {'kind': 'index', 'tape': tape}, compiled=comp, refres=refres, collab=collab)
        runs += 1
        yield list(tape), o
        log = o.choice_log
        nxt = None
        for i in range(len(log) - 1, -1, -1):
            n, c = log[i]
            if c < n - 1:
                nxt = [x[1] for x in log[:i]] + [c + 1]
                break
        if nxt is None or runs >= budget:
            return
        tape = nxt


class ScheduleEnumerationMixin:
    """thorough tier: exhaustive schedule exploration of small programs"""

    enum_programs = 30
    enum_budget = 3000

    def enum_oracle(self, case, refres, o):
        raise NotImplementedError

    def extra(self, tier, seed, stats):
        if tier != 'thorough':
            return
        from verifkit.driver import ViolationFound

        cases = draw_cases(seed + 101, self.enum_programs, feats=self.feats, clean=True, n_scheds=0, min_nodes=3,
                           max_nodes=7)
        exhausted = total = 0
        for case in cases:
            case = _sanitize(case)
            prog, var = case['program'], case['variant']
            refres = REF.reference(prog, var)
            comp = C.compile_program(prog)
            keys = set()
            n = 0
            last_log_exhausted = True
            for tape, o in enumerate_schedules(prog, var, comp, refres, self.enum_budget):
                n += 1
                viol = self.enum_oracle(case, refres, o)
                keys.add(E.outcome_key(o))
                if not viol and len(keys) > 1 and self.id == 'C01':
                    viol = [('schedule-dependent-outcome', f'{sorted(map(str, keys))}')]
                if viol:
                    bad = dict(case, scheds=[{'kind': 'index', 'tape': tape}])
                    raise ViolationFound(bad, [(s, f'[enumerated tape {tape}] {d}') for s, d in viol])
            last_log_exhausted = n < self.enum_budget
            exhausted += last_log_exhausted
            total += n
            verdict = Verdict([], n >= 2, ['schedules-enumerated'] + (['schedule-tree-exhausted'] if
                                                                     last_log_exhausted else []), None, runs=n)
            stats.record(self, dict(case, enumerated=True), verdict)
        stats.extra['exhaustive_schedule_programs'] = stats.extra.get('exhaustive_schedule_programs', 0) + exhausted
        stats.extra['enumerated_schedules'] = stats.extra.get('enumerated_schedules', 0) + total


def _tag(viol, i):
    return [(s, f'[schedule {i}] {d}') for s, d in viol]


# ------------------------------------------------------------------------------------------------ C01
class C01(ScheduleEnumerationMixin, EngineCheck):
    id = 'C01'

    def strategy(self, tier):
        base = super().strategy(tier)
        return st.one_of(*([base] * 13), rec_consumer_templates(tier), rec_consumer_templates(tier),
                         shared_failure_templates(tier), shared_between_candidates_templates(tier))

    rule = ('case = generated program (all mark kinds, modes, retry settings) x behaviour variant x 1 FIFO + 3 '
            'generated schedules (index tapes and rank schedules); non-trivial = at least two completions were '
            'outstanding at once in some run and two of the compared runs delivered completions in different orders; '
            'distinct = digest of (program, variant, schedules)')
    floors = {'outstanding>=2': 0.3}
    quick_nodes = (5, 10)
    thorough_nodes = (5, 12)
    p_feat = 25
    # schedule independence needs several completions outstanding at once: mostly externally completed modes,
    # mostly layered (wide) shapes
    gen_extra = {'mode_weights': {'gated': 6, 'thread': 3, 'process': 2, 'coro': 1, 'inline': 1}, 'p_layered': 9,
                 'p_nested': 7}

    def oracle(self, case, refres, obs):
        v = []
        for i, o in enumerate(obs):
            v += _tag(O.oracle_outcome(o, refres), i)
        k0 = E.outcome_key(obs[0])
        for i, o in enumerate(obs[1:], 1):
            k = E.outcome_key(o)
            if k != k0:
                v.append(('schedule-dependent-outcome', f'schedule 0 -> {k0}, schedule {i} -> {k}'))
        return v

    def nontrivial(self, case, refres, obs):
        return max(o.max_outstanding for o in obs) >= 2 and len({tuple(fire_order(o)) for o in obs}) > 1

    def enum_oracle(self, case, refres, o):
        return O.oracle_outcome(o, refres)


# ------------------------------------------------------------------------------------------------ C02
def unknown_label(beh):
    """the variant makes a switch node return a label that no case declares (declared labels are L0, L1, ...)"""
    return 'label' in beh and not (isinstance(beh['label'], str) and beh['label'][:1] == 'L'
                                   and beh['label'][1:].isdigit())


@st.composite
def collabs(draw, faults=True):
    ems = []
    if faults and draw(st.integers(0, 5)) == 0:
        # directed: one manager raises inside a node callback next to manager(s) that suspend inside the same callback
        hook = draw(st.sampled_from(['on_node_start', 'on_node_complete']))
        ems = [{'gated': True} for _ in range(draw(st.integers(1, 2)))]
        ems.insert(draw(st.integers(0, len(ems))),
                   {'gated': draw(st.booleans()), 'raise': {f'{hook}:{draw(st.integers(1, 3))}': True}})
        store = {'gated': draw(st.booleans()), 'write_once': False} if draw(st.integers(0, 3)) == 0 else None
        return {'ems': ems, 'store': store}
    for _ in range(draw(st.sampled_from([0, 0, 1, 1, 2]))):
        em = {'gated': draw(st.booleans())}
        if faults and draw(st.integers(0, 2)) == 0:
            hook = draw(st.sampled_from(['on_pipeline_start', 'on_pipeline_complete', 'on_node_start',
                                         'on_node_complete']))
            em['raise'] = {f'{hook}:{draw(st.integers(1, 4))}': True}
        ems.append(em)
    store = None
    if draw(st.booleans()):
        store = {'gated': draw(st.booleans()), 'write_once': False}
        if faults and draw(st.integers(0, 2)) == 0:
            store['raise'] = {f'save:{draw(st.integers(1, 4))}': True}
    return {'ems': ems, 'store': store}


class C02(ScheduleEnumerationMixin, EngineCheck):
    id = 'C02'
    rule = ('case = generated program x variant with faults placed anywhere (node failures on any attempt, None/falsy '
            'values, unknown switch labels, failures at any depth of one-of candidates, raising or gated event '
            'callbacks, raising or gated store saves) x 4 schedules; verdict per run is exact: loop idle, nothing '
            'outstanding, run pending = deadlock; non-trivial = at least one fault placed or >=2 completions '
            'outstanding at once')

    def strategy(self, tier):
        kw = self.gen_kwargs(tier)

        @st.composite
        def s(draw):
            case = draw(G.cases(collab_scheds=True, **kw))
            case['collab'] = draw(collabs())
            return _sanitize(case)

        @st.composite
        def lazy_in_rec(draw):
            # F8 region (laziness inside a recurrent subgraph is a known finding): termination must hold there too
            case = draw(st.one_of(oneof_in_recurrent_templates(tier, failures=True),
                                  switch_in_recurrent_templates(tier)))
            case['collab'] = draw(collabs())
            return case

        @st.composite
        def candidate_failures(draw):
            # a candidate abandoned while helper tasks / shared nodes are at every stage
            case = draw(st.one_of(shared_between_candidates_templates(tier), candidate_lazy_failure_templates(tier),
                                  nested_containment_templates(tier), case_also_plain_templates(tier)))
            case['scheds'] = case['scheds'][:10:3] + case['scheds'][10:] if case.get('template') != 'case-also-plain' \
                else case['scheds']
            case['collab'] = draw(collabs())
            return case

        @st.composite
        def falsy_decisive(draw):
            # a node whose RESULT the engine inspects to decide something (one-of candidate, switch case, recurrent
            # destination, output) returns None / a falsy value. Node and value are picked from the digest of the
            # program rather than drawn: Hypothesis re-uses a small pool of choices within one run, which was seen to
            # leave 'None' out of 436 candidate nodes altogether
            case = draw(s())
            prog = case['program']
            cons = S.consumers(prog)
            rec_dests = {m[2] for _, _, m in S.rec_marks(prog)}
            nodes_ = [n['id'] for n in prog['nodes'] if n['id'] == prog['output'] or n['id'] in rec_dests
                      or any(r in ('cand', 'case') for _, _, _, r in cons[n['id']])]
            nodes_ = [x for x in nodes_ if 'label' not in case['variant']['nodes'].get(x, {})]
            if nodes_:
                h = int(S.digest(prog, 8), 16)
                nid = nodes_[h % len(nodes_)]
                kind = ['none', 'zero', 'empty', 'false', 'list', 'none'][(h // 7) % 6]
                beh = case['variant']['nodes'].setdefault(nid, {})
                beh['value'] = kind
                beh.pop('outcomes', None)
                beh.pop('tail', None)
            return case

        return st.one_of(*([s()] * 13), falsy_decisive(), lazy_in_rec(), candidate_failures())

    def oracle(self, case, refres, obs):
        v = []
        for i, o in enumerate(obs):
            v += _tag(O.oracle_termination(o), i)
        return v

    def enum_oracle(self, case, refres, o):
        return O.oracle_termination(o)

    def nontrivial(self, case, refres, obs):
        faults = bool(refres['invocations']) and (
            any(i['outcome'] not in ('ok', 'rec') for inv in refres['invocations'].values() for i in inv)
            or any(unknown_label(b) or b.get('value') in R.FALSY for b in case['variant']['nodes'].values())
            or any(e.get('raise') for e in case['collab']['ems'])
            or bool((case['collab']['store'] or {}).get('raise')))
        return faults or max(o.max_outstanding for o in obs) >= 2

    def classes(self, case, refres, obs):
        cl = super().classes(case, refres, obs)
        if any(e.get('raise') for e in case['collab']['ems']):
            cl.append('event-manager-raises')
        if any(e.get('gated') for e in case['collab']['ems']):
            cl.append('event-manager-gated')
        if (case['collab']['store'] or {}).get('raise'):
            cl.append('store-raises')
        if any(unknown_label(b) for b in case['variant']['nodes'].values()):
            cl.append('unknown-label')
        if any(b.get('value') in R.FALSY for b in case['variant']['nodes'].values()):
            cl.append('falsy-value')
        d = oneof_failure_depth(case['program'], refres)
        if d is not None:
            cl.append(f'oneof-failure-depth:{min(d, 4)}')
        return cl


def oneof_failure_depth(program, refres):
    """max distance between a failed node and the candidate whose sub-pipeline contains it"""
    g = S.deps_graph(program)
    failed = {nid for nid, inv in refres['invocations'].items() if inv and inv[-1]['outcome'] not in ('ok', 'rec')}
    best = None
    for n in program['nodes']:
        for _, m in n['params']:
            if m[0] != 'oneof':
                continue
            for c in m[1]:
                # BFS depth from candidate
                depth = {c: 0}
                q = [c]
                while q:
                    x = q.pop(0)
                    for d in g[x]:
                        if d not in depth:
                            depth[d] = depth[x] + 1
                            q.append(d)
                for f in failed:
                    if f in depth and (best is None or depth[f] > best):
                        best = depth[f]
    return best


# ------------------------------------------------------------------------------------------------ C03
def oracle_start_after_inputs(o, program):
    """a consumer body starts only after the producers of its arguments have returned and been delivered"""
    out = []
    label_seq = {}
    for lab, sq in zip(o.fire_log, o.fire_seq):
        if lab[0] in ('exec', 'gate'):
            label_seq[lab] = sq
    # delivery seq per body entry
    delivered = {}
    by_node_exec = {}
    for lab in label_seq:
        if lab[0] == 'exec':
            by_node_exec.setdefault(lab[2], []).append(lab)
    bodies = o.bodies
    for e in bodies:
        mode = S.node_index(program)[e['node']]['mode']
        if mode in ('thread', 'process'):
            labs = [l for l in by_node_exec.get(e['node'], []) if l[3] < e['seq']]
            if labs:
                lab = max(labs, key=lambda l: l[3])
                delivered[e['seq']] = label_seq[lab]
            else:
                delivered[e['seq']] = None  # never delivered
        else:
            delivered[e['seq']] = e.get('end')
    for e in bodies:
        for kw, v in e['kwargs'].items():
            if not R.is_value(v) or v[2].startswith('D'):
                continue
            cv = R.canon(v)
            prods = [p for p in bodies if p.get('outcome') == 'ok' and R.canon(p.get('value')) == cv
                     and p['seq'] < e['seq']]
            if not prods:
                continue  # reported by the model-free kwargs oracle
            if not any(delivered.get(p['seq']) is not None and delivered[p['seq']] < e['seq'] for p in prods):
                out.append(('started-before-input-final', f'{e["node"]}.{kw} consumed {cv} before its producer '
                                                          f'{v[1]} had completed'))
    return out


def oracle_input_being_recomputed(o, program):
    """model-free: when a consumer starts with the value v of producer P, no recomputation that will supersede v
    may already be under way, i.e. neither P nor a dependency-ancestor of P has started an execution after the
    execution of P that produced v ended. Holds for every program shape (also outside readers of a recurrent
    subgraph, where the documentation does not say WHICH iteration a reader sees: whichever it is, it must not be
    one that is being replaced at that very moment)."""
    out = []
    g = S.deps_graph(program)
    anc_cache = {}
    by_node = {}
    for e in o.bodies:
        by_node.setdefault(e['node'], []).append(e)
    for x in o.bodies:
        for kw, v in x['kwargs'].items():
            if not R.is_value(v) or v[2].startswith('D') or v[1] not in by_node:
                continue
            cv = R.canon(v)
            prods = [p for p in by_node[v[1]] if p.get('outcome') == 'ok' and p.get('end') and p['end'] < x['seq']
                     and R.canon(p.get('value')) == cv]
            if not prods:
                continue
            p_end = max(p['end'] for p in prods)
            pid = v[1]
            if pid not in anc_cache:
                # only nodes whose re-execution entails a re-execution of P: members of a recurrent subgraph that
                # contains P and lie upstream of P inside it
                up = S.ancestors(g, pid) | {pid}
                paths = [S.rec_path_nodes(program, m[1], m[2], g) for _, _, m in S.rec_marks(program)]
                rel = set()
                for a in up:
                    mine = [p for p in paths if a in p]
                    # every subgraph that can re-execute `a` must also contain P (an inner subgraph nested in an
                    # outer one re-executes its own members only)
                    if mine and all(pid in p for p in mine):
                        rel.add(a)
                anc_cache[pid] = rel
            for a in anc_cache[pid]:
                for e in by_node.get(a, []):
                    if p_end < e['seq'] < x['seq']:
                        out.append(('input-being-recomputed',
                                    f'{x["node"]}.{kw} started with the value of {pid} although {a} (which {pid} depends '
                                    f'on) had already started a new execution: the value is being superseded'))
                        break
                else:
                    continue
                break
    return out


@st.composite
def outside_reader_templates(draw, tier):
    """directed shape for the same region: a recurrent chain S -> ... -> D, an outside node X that reads an interior
    node M and a second producer W of generated depth; the completion of W is placed, by one delay schedule per
    position, at EVERY point of the run (so also inside every re-iteration window)"""
    def N(nid, params=(), mode='gated', **kw):
        d = {'id': nid, 'params': [list(p) for p in params], 'mode': mode}
        d.update(kw)
        return d
    ext = st.sampled_from(['gated', 'gated', 'thread', 'process'])
    ln = draw(st.integers(2, 4))
    nodes = [N('n0', mode=draw(st.sampled_from(['coro', 'inline', 'gated'])))]
    prev = 'n0'
    chain = []
    for i in range(ln):
        nid = f'n{len(nodes)}'
        nodes.append(N(nid, [('k0', ['in', prev])], mode=draw(ext)))
        chain.append(nid)
        prev = nid
    nodes[1]['additional_data'] = True
    nodes[len(nodes) - 1]['rec_dest'] = True
    if draw(st.booleans()):
        nodes[len(nodes) - 1]['use_default'] = True
    m = chain[draw(st.integers(0, ln - 2))]
    prev = 'n0'
    for _ in range(draw(st.integers(0, ln + 1))):
        nid = f'n{len(nodes)}'
        nodes.append(N(nid, [('k0', ['in', prev])], mode=draw(st.sampled_from(['coro', 'inline']))))
        prev = nid
    w = f'n{len(nodes)}'
    nodes.append(N(w, [('k0', ['in', prev])], mode=draw(ext)))
    x = f'n{len(nodes)}'
    nodes.append(N(x, [('k0', ['in', m]), ('k1', ['in', w])], mode=draw(ext)))
    maxit = draw(st.integers(1, 3))
    out = f'n{len(nodes)}'
    nodes.append(N(out, [('k0', ['rec', chain[0], chain[-1], maxit]), ('k1', ['in', x])], mode=draw(ext)))
    prog = {'nodes': nodes, 'output': out}
    var = {'x': 0, 'nodes': {chain[-1]: {'rec_n': draw(st.integers(1, maxit + 1))}}}
    scheds = [{'kind': 'delay', 'node': w, 'after': k} for k in range(0, 4 * ln + 8)]
    return {'program': prog, 'variant': var, 'scheds': scheds, 'outside_readers': True, 'template': True}


@st.composite
def rec_consumer_templates(draw, tier):
    """clean-region directed shape: the consumer of a recurrent destination has a second producer W whose completion
    is placed at EVERY position of the run (also in the loop step in which the destination asks for an iteration)"""
    def N(nid, params=(), mode='gated', **kw):
        d = {'id': nid, 'params': [list(p) for p in params], 'mode': mode}
        d.update(kw)
        return d
    ext = st.sampled_from(['gated', 'gated', 'thread', 'process', 'coro'])
    ln = draw(st.integers(1, 3))
    nodes = [N('n0', mode=draw(st.sampled_from(['coro', 'inline', 'gated'])))]
    start_is_input = draw(st.integers(0, 3)) == 0
    side = None
    if draw(st.booleans()):
        # a side input: outside the subgraph (neither reachable from the start nor an ancestor of it), consumed by a
        # member of the subgraph - it must not be re-executed by the iterations
        side = f'n{len(nodes)}'
        nodes.append(N(side, [('k0', ['in', 'n0'])] if not start_is_input and draw(st.booleans()) else [],
                       mode=draw(ext)))
    prev = 'n0'
    chain = ['n0'] if start_is_input else []
    for i in range(ln):
        nid = f'n{len(nodes)}'
        nodes.append(N(nid, [('k0', ['in', prev])], mode=draw(ext)))
        chain.append(nid)
        prev = nid
    S.node_index({'nodes': nodes})[chain[0]]['additional_data'] = True
    if side is not None:
        members = [c for c in chain if c != 'n0']
        if members:
            tgt = S.node_index({'nodes': nodes})[draw(st.sampled_from(members))]
            tgt['params'].append([f'k{len(tgt["params"])}', ['in', side]])
    dest = chain[-1]
    S.node_index({'nodes': nodes})[dest]['rec_dest'] = True
    if draw(st.booleans()):
        S.node_index({'nodes': nodes})[dest]['use_default'] = True
    prev = 'n0'
    for _ in range(draw(st.integers(0, ln + 1))):
        nid = f'n{len(nodes)}'
        # nothing outside the subgraph may read the start node by value (that is the F6 region)
        reads = prev != 'n0' or (not start_is_input and draw(st.booleans()))
        nodes.append(N(nid, [('k0', ['in', prev])] if reads else [], mode=draw(st.sampled_from(['coro', 'inline']))))
        prev = nid
    w = f'n{len(nodes)}'
    nodes.append(N(w, [('k0', ['in', prev])] if prev != 'n0' or not start_is_input else [], mode=draw(ext)))
    maxit = draw(st.integers(1, 3))
    x = f'n{len(nodes)}'
    params = [('k0', ['rec', chain[0], dest, maxit]), ('k1', ['in', w])]
    if draw(st.booleans()):
        params.reverse()
        params = [(f'k{i}', m) for i, (_, m) in enumerate(params)]
    nodes.append(N(x, params, mode=draw(ext)))
    out = f'n{len(nodes)}'
    nodes.append(N(out, [('k0', ['in', x])], mode=draw(ext)))
    prog = {'nodes': nodes, 'output': out}
    var = {'x': 0, 'nodes': {dest: {'rec_n': draw(st.integers(1, maxit + 1))}}}
    scheds = [{'kind': 'delay', 'node': w, 'after': k} for k in range(0, 4 * ln + 8)]
    return {'program': prog, 'variant': var, 'scheds': scheds, 'template': 'rec-consumer'}


@st.composite
def outside_reader_cases(draw, tier):
    """recurrent subgraphs whose interior is also read from outside (known finding F6: which iteration the reader
    sees is schedule-dependent). Only the model-free oracle above is applied to these cases."""
    # exactly one recurrent subgraph: with several, a start node of one subgraph may read the interior of another
    # with a readiness test that looks at its own subgraph only, and the rule below would not be sound
    prog = draw(G.programs(feats=('rec', 'default', 'retry'), clean=False, min_nodes=4,
                           max_nodes=8 if tier == 'quick' else 10, p_feat=40).filter(
        lambda p: not F.f7_overlapping_recurrent(p) and len({(m[1], m[2]) for _, _, m in S.rec_marks(p)}) == 1))
    var = draw(G.variants(prog, feats=('rec',)))
    scheds = [draw(G.schedules(prog)) for _ in range(3)]
    return {'program': prog, 'variant': var, 'scheds': scheds, 'outside_readers': True}


class C03(EngineCheck):
    id = 'C03'
    quick_examples = 1000
    rule = ('case = program x variant x 4 schedules (rank schedules hold chosen producers back); every body '
            'invocation is checked: keyword names = declared parameters, no exception / Recurrent / unproduced value '
            'as argument, argument digests equal the reference (which encodes provenance of every upstream value, run '
            'tag and iteration), producer completed before the consumer started; non-trivial = a consumer with >=2 '
            'producers while >=2 completions were outstanding, or a value delivered through a switch / one-of / '
            'recurrent mark')

    def strategy(self, tier):
        base = super().strategy(tier)
        return st.one_of(base, base, base, base, base, base, base, base, outside_reader_cases(tier),
                         outside_reader_templates(tier), shared_failure_templates(tier),
                         rec_consumer_templates(tier), rec_consumer_templates(tier))

    def oracle(self, case, refres, obs):
        v = []
        for i, o in enumerate(obs):
            if case.get('outside_readers'):
                # F6 region: no reference comparison, no termination claim; one model-free rule
                v += _tag(oracle_input_being_recomputed(o, case['program']), i)
                continue
            t = O.oracle_termination(o)
            if t:
                v += _tag(t, i)
                continue
            v += _tag(O.oracle_kwargs_model_free(o, case['program']), i)
            v += _tag(O.oracle_kwargs(o, refres), i)
            v += _tag(oracle_start_after_inputs(o, case['program']), i)
            v += _tag(oracle_input_being_recomputed(o, case['program']), i)
        return v

    def classes(self, case, refres, obs):
        cl = super().classes(case, refres, obs)
        if case.get('outside_readers'):
            cl.append('outside-reader-region')
            if F.f6_outside_reader(case['program']) and any(i['epoch'] > 0 for v in refres['invocations'].values()
                                                            for i in v):
                cl.append('outside-reader-with-re-iteration')
        return cl

    def nontrivial(self, case, refres, obs):
        prog = case['program']
        multi = any(len(n['params']) >= 2 and n['id'] in refres['demanded'] for n in prog['nodes'])
        lazy = any(m[0] != 'in' for n in prog['nodes'] if n['id'] in refres['demanded'] for _, m in n['params'])
        return (multi and max(o.max_outstanding for o in obs) >= 2) or lazy


# ------------------------------------------------------------------------------------------------ C04
def shared_nodes(program, refres):
    """executed non-input nodes that belong to >=2 activated scopes"""
    sc = F.scopes(program)
    inp = S.input_id(program)
    active = {}
    for name, nodes in sc.items():
        if name == 'main' or name[1] in refres['demanded']:
            active[name] = nodes
    out = set()
    for nid in refres['demanded']:
        if nid == inp:
            continue
        if sum(1 for nodes in active.values() if nid in nodes) >= 2:
            out.add(nid)
    return out


class C04(EngineCheck):
    id = 'C04'
    p_feat = 45
    rule = ('case = program biased to sharing (rhombi; nodes needed by the main scope and by switch / one-of '
            'sub-pipelines) x variant x 4 schedules; per node the number of body invocations never exceeds the '
            'reference count (one execution per iteration epoch plus configured retries) and equals it in '
            'successful runs; every consumer received the reference value; non-trivial = an executed non-input node '
            'belongs to >=2 activated scopes (main / candidate / case sub-pipelines)')
    floors = {'shared-across-scopes': 0.1}

    def strategy(self, tier):
        kw = self.gen_kwargs(tier)

        @st.composite
        def with_managers(draw):
            # at most once must also hold while collaborators suspend inside the engine's bookkeeping of a node
            # (event callbacks, artifact saves): a second scope may request the node during that suspension
            case = draw(G.cases(collab_scheds=True, **kw))
            case['collab'] = {'ems': [{'gated': True} for _ in range(draw(st.integers(1, 2)))],
                              'store': {'gated': True, 'write_once': False} if draw(st.booleans()) else None}
            return _sanitize(case)

        base = super().strategy(tier)
        return st.one_of(*([base] * 9), *([with_managers()] * 3), switch_in_recurrent_templates(tier),
                         shared_failure_templates(tier))

    def oracle(self, case, refres, obs):
        v = []
        for i, o in enumerate(obs):
            t = O.oracle_termination(o)
            if t:
                v += _tag(t, i)
                continue
            v += _tag(oracle_iteration_bounds(o, case['program']), i)
            if case.get('switch_in_recurrent'):
                continue  # F8 region: only the model-free bounds
            v += _tag(O.oracle_executed(o, refres), i)
            v += _tag([x for x in O.oracle_kwargs(o, refres) if x[0] == 'wrong-kwargs'], i)
        return v

    def nontrivial(self, case, refres, obs):
        return bool(shared_nodes(case['program'], refres)) or bool(case.get('switch_in_recurrent'))

    def classes(self, case, refres, obs):
        cl = super().classes(case, refres, obs)
        if shared_nodes(case['program'], refres):
            cl.append('shared-across-scopes')
        cons = S.consumers(case['program'])
        if any(len(cons[n]) >= 2 for n in refres['demanded']):
            cl.append('rhombus')
        return cl


# ------------------------------------------------------------------------------------------------ C05
class C05(EngineCheck):
    id = 'C05'
    level = 'fault_enumeration'
    feats = BASE_FEATS + ('fatal',)
    p_feat = 45
    quick_examples = 1300
    rule = ('case = program x set of failing nodes (from the variant; thorough additionally enumerates ALL subsets of '
            'reachable nodes failing for programs with <=7 reachable nodes) x 4 schedules; verdict, value and cause '
            'are compared with the reference: error is (identity) an exception raised by a required node in this run '
            'or the documented one-of / recurrent / switch error; never an engine artefact; run never raises an '
            'Exception; non-trivial = the reference fails, or a contained failure happens next to a successful '
            'result')
    floors = {'ref-fails': 0.3}

    def strategy(self, tier):
        kw = self.gen_kwargs(tier)

        @st.composite
        def s(draw):
            case = draw(G.cases(**kw))
            if tier == 'thorough' and draw(st.integers(0, 11)) == 0:
                case['enumerate_failsets'] = True
            if 'focus_fail' not in case['variant'] and draw(st.booleans()):
                G.focus_shared_failure(draw, case['program'], case['variant'])
            for n in case['program']['nodes']:
                # a configured node fails with listed and unlisted exceptions: the verdict (default / failure / which
                # error) must follow the policy
                if (n.get('exceptions') or n.get('use_default')) and draw(st.integers(0, 2)) == 0:
                    k = draw(st.integers(1, 3))
                    case['variant']['nodes'].setdefault(n['id'], {})['outcomes'] = [
                        draw(st.sampled_from(['ErrA', 'ErrA2', 'ErrB', 'ErrC'])) for _ in range(k)]
            return _sanitize(case)

        return st.one_of(*([s()] * 12), shared_failure_templates(tier),
                         candidate_lazy_failure_templates(tier), nested_containment_templates(tier),
                         shared_between_candidates_templates(tier))

    def oracle(self, case, refres, obs):
        v = []
        for i, o in enumerate(obs):
            v += _tag(O.oracle_outcome(o, refres), i)
        return v

    def nontrivial(self, case, refres, obs):
        return (not refres['ok']) or bool(refres['maybe'])

    def examine(self, case):
        verdict = super().examine(case)
        if not case.get('enumerate_failsets') or verdict.violations:
            return verdict
        prog = case['program']
        reach = sorted(S.reachable(prog))
        if len(reach) > 7:
            return verdict
        comp = C.compile_program(prog)
        base = case['variant']
        runs = 0
        for r in range(len(reach) + 1):
            for sub in itertools.combinations(reach, r):
                var = {'x': base.get('x', 0), 'nodes': {}}
                for nid, b in base['nodes'].items():
                    nb = {k: v for k, v in b.items() if k not in ('outcomes', 'tail')}
                    if nb:
                        var['nodes'][nid] = nb
                for nid in sub:
                    var['nodes'].setdefault(nid, {})['tail'] = 'ErrA'
                p2, v2, applied = F.sanitize(prog, var)
                if applied:
                    continue
                refres = REF.reference(prog, var)
                for sched in [None] + case['scheds'][:1]:
                    o = E.run_once(prog, var, sched, compiled=comp, refres=refres)
                    runs += 1
                    viol = O.oracle_outcome(o, refres)
                    if viol:
                        bad = dict(case, variant=var, scheds=[sched] if sched else [])
                        bad.pop('enumerate_failsets', None)
                        verdict.violations = viol
                        verdict.case_override = bad
                        return verdict
        verdict.runs += runs
        verdict.classes.append('failsets-enumerated')
        return verdict


# ------------------------------------------------------------------------------------------------ C09
@st.composite
def switch_in_recurrent_templates(draw, tier):
    """a switch on the start->destination path of a recurrent subgraph whose label changes from iteration to
    iteration (known finding F8 region: non-selected cases are executed there too; only ROUTING is checked: in
    every iteration the consumer must receive the case that matches the label returned in that iteration)"""
    def N(nid, params=(), mode='gated', **kw):
        d = {'id': nid, 'params': [list(p) for p in params], 'mode': mode}
        d.update(kw)
        return d
    ext = st.sampled_from(['gated', 'gated', 'thread', 'coro', 'inline'])
    ncase = draw(st.integers(2, 3))
    nodes = [N('n0', mode='coro'), N('n1', [('k0', ['in', 'n0'])], mode=draw(ext), additional_data=True),
             N('n2', [('k0', ['in', 'n1'])], mode=draw(ext))]
    cases = []
    for i in range(ncase):
        nid = f'n{len(nodes)}'
        nodes.append(N(nid, [('k0', ['in', 'n1'])], mode=draw(ext)))
        cases.append([f'L{i}', nid])
    cons = f'n{len(nodes)}'
    params = [('k0', ['sw', 'sw_rec', 'n2', cases])]
    if draw(st.booleans()):
        params.append(('k1', ['in', cases[0][1]]))  # a case that is also a plain input
    nodes.append(N(cons, params, mode=draw(ext)))
    dest = f'n{len(nodes)}'
    nodes.append(N(dest, [('k0', ['in', cons])], mode=draw(ext), rec_dest=True, use_default=draw(st.booleans())))
    maxit = draw(st.integers(1, 3))
    out = f'n{len(nodes)}'
    nodes.append(N(out, [('k0', ['rec', 'n1', dest, maxit])], mode=draw(ext)))
    prog = {'nodes': nodes, 'output': out}
    labels = [draw(st.sampled_from([c[0] for c in cases])) for _ in range(maxit + 2)]
    var = {'x': 0, 'nodes': {'n2': {'labels': labels}, dest: {'rec_n': draw(st.integers(1, maxit))}}}
    scheds = [draw(G.schedules(prog)) for _ in range(3)]
    return {'program': prog, 'variant': var, 'scheds': scheds, 'switch_in_recurrent': cons}


@st.composite
def case_also_plain_templates(draw, tier):
    """directed shape: the selected case of a switch is ALSO a plain input of another node (so the main graph starts
    it on its own, before the switch is resolved); the consumer of the switch is not a direct successor of the case.
    The case (or the decider) is held back and released at every position: both orders 'switch resolved while its
    case is still running' and 'case finished first' are reached."""
    def N(nid, params=(), mode='gated', **kw):
        d = {'id': nid, 'params': [list(p) for p in params], 'mode': mode}
        d.update(kw)
        return d
    ext = st.sampled_from(['gated', 'gated', 'gated', 'thread', 'coro'])
    nodes = [N('n0', mode=draw(st.sampled_from(['coro', 'inline', 'gated'])))]

    def add(params, **kw):
        nid = f'n{len(nodes)}'
        nodes.append(N(nid, params, mode=draw(ext), **kw))
        return nid

    def chain(src, k):
        for _ in range(k):
            src = add([('k0', ['in', src])])
        return src

    dec = chain('n0', draw(st.integers(1, 2)))
    c = chain('n0', draw(st.integers(1, 2)))
    other = add([('k0', ['in', 'n0'])])
    cons = add([('k0', ['sw', 'sw_c' if draw(st.booleans()) else None, dec, [['L0', c], ['L1', other]]])])
    cons = chain(cons, draw(st.integers(0, 1)))
    params = [('k0', ['in', cons]), ('k1', ['in', c])]
    if draw(st.booleans()):
        params = [('k0', ['in', c]), ('k1', ['in', cons])]
    out = add(params)
    prog = {'nodes': nodes, 'output': out}
    var = {'x': 0, 'nodes': {dec: {'label': draw(st.sampled_from(['L0', 'L0', 'L0', 'L1']))}}}
    if draw(st.integers(0, 5)) == 0:
        var['nodes'][c] = {'outcomes': [], 'tail': 'ErrA'}
    held = draw(st.sampled_from([c, c, dec]))
    scheds = [{'kind': 'delay', 'node': held, 'after': k} for k in range(0, 8)]
    return {'program': prog, 'variant': var, 'scheds': scheds, 'template': 'case-also-plain'}


@st.composite
def same_decider_templates(draw, tier):
    """directed shape: two DIFFERENT switches (unnamed, or named differently) driven by the same decision node, with
    different case nodes and possibly different label sets, consumed by two nodes or by two parameters of one node.
    Each consumer must get the case of ITS switch; a label only the other switch declares is an unknown label."""
    def N(nid, params=(), mode='gated', **kw):
        d = {'id': nid, 'params': [list(p) for p in params], 'mode': mode}
        d.update(kw)
        return d
    ext = st.sampled_from(['gated', 'gated', 'coro', 'thread', 'inline'])
    nodes = [N('n0', mode='coro')]

    def add(params, **kw):
        nid = f'n{len(nodes)}'
        nodes.append(N(nid, params, mode=draw(ext), **kw))
        return nid

    dec = add([('k0', ['in', 'n0'])])
    labels_a = ['L0', 'L1'][:draw(st.integers(1, 2))]
    labels_b = ['L0', 'L1', 'L2'][:draw(st.integers(1, 3))]
    cases_a = [[l, add([('k0', ['in', 'n0'])])] for l in labels_a]
    cases_b = [[l, add([('k0', ['in', 'n0'])])] for l in labels_b]
    named = draw(st.booleans())
    ma = ['sw', 'sw_a' if named else None, dec, cases_a]
    mb = ['sw', 'sw_b' if named else None, dec, cases_b]
    if draw(st.booleans()):
        ca = add([('k0', ma)])
        cb = add([('k0', mb)])
        params = [('k0', ['in', ca]), ('k1', ['in', cb])]
        if draw(st.booleans()):
            params.reverse()
            params = [(f'k{i}', m) for i, (_, m) in enumerate(params)]
        out = add(params)
    else:
        out = add([('k0', ma), ('k1', mb)] if draw(st.booleans()) else [('k0', mb), ('k1', ma)])
    prog = {'nodes': nodes, 'output': out}
    var = {'x': 0, 'nodes': {dec: {'label': draw(st.sampled_from(['L0', 'L0', 'L1', 'L1', 'L2', 'NOPE']))}}}
    scheds = [draw(G.schedules(prog)) for _ in range(3)]
    return {'program': prog, 'variant': var, 'scheds': scheds, 'template': 'same-decider'}


def oracle_routing_per_iteration(o, case):
    out = []
    prog, var = case['program'], case['variant']
    cons = case['switch_in_recurrent']
    labels = var['nodes']['n2']['labels']
    mark = [m for _, m in S.node_index(prog)[cons]['params'] if m[0] == 'sw'][0]
    by_label = {l: c for l, c in mark[3]}
    ents = [e for e in o.bodies if e['node'] == cons]
    for i, e in enumerate(ents):
        want = by_label[labels[min(i, len(labels) - 1)]]
        v = e['kwargs'].get('k0')
        if not R.is_value(v) or v[1] != want:
            out.append(('wrong-case-routed', f'iteration {i}: switch node returned {labels[min(i, len(labels) - 1)]!r} but '
                                             f'{cons}.k0 = {R.canon(v)} (expected the value of {want})'))
        elif dict(v[3]).get('n1', 0) != i:
            out.append(('stale-case-value', f'iteration {i}: {cons}.k0 = {R.canon(v)} belongs to iteration '
                                            f'{dict(v[3]).get("n1", 0)}'))
    return out


@st.composite
def oneof_in_recurrent_templates(draw, tier, failures=False):
    """a one-of on the start->destination path of a recurrent subgraph (known finding F8 region: on re-iteration every
    candidate on the path is executed and a failing one fails the run, so only termination, the model-free iteration
    bounds and ROUTING are checked: whenever the consumer body runs in iteration i its argument is the value, computed
    in iteration i, of the first candidate that does not fail)"""
    def N(nid, params=(), mode='gated', **kw):
        d = {'id': nid, 'params': [list(p) for p in params], 'mode': mode}
        d.update(kw)
        return d
    ext = st.sampled_from(['gated', 'gated', 'thread', 'coro', 'inline'])
    ncand = draw(st.integers(2, 3))
    nodes = [N('n0', mode='coro'), N('n1', [('k0', ['in', 'n0'])], mode=draw(ext), additional_data=True)]
    cands = []
    for i in range(ncand):
        src = 'n1'
        if draw(st.integers(0, 3)) == 0:
            mid = f'n{len(nodes)}'
            nodes.append(N(mid, [('k0', ['in', 'n1'])], mode=draw(ext)))
            src = mid
        nid = f'n{len(nodes)}'
        nodes.append(N(nid, [('k0', ['in', src])], mode=draw(ext)))
        cands.append(nid)
    cons = f'n{len(nodes)}'
    params = [('k0', ['oneof', cands])]
    if draw(st.booleans()):
        params.append(('k1', ['in', 'n1']))
    nodes.append(N(cons, params, mode=draw(ext)))
    dest = cons
    if draw(st.booleans()):
        dest = f'n{len(nodes)}'
        nodes.append(N(dest, [('k0', ['in', cons])], mode=draw(ext)))
    S.node_index({'nodes': nodes})[dest].update(rec_dest=True, use_default=draw(st.booleans()))
    maxit = draw(st.integers(1, 3))
    out = f'n{len(nodes)}'
    nodes.append(N(out, [('k0', ['rec', 'n1', dest, maxit])], mode=draw(ext)))
    prog = {'nodes': nodes, 'output': out}
    var = {'x': 0, 'nodes': {dest: {'rec_n': draw(st.integers(1, maxit + 1))}}}
    failing = []
    if failures:
        k = draw(st.integers(0, ncand))
        failing = cands[:k] if draw(st.booleans()) else [c for c in cands if draw(st.booleans())]
        for c in failing:
            var['nodes'][c] = {'outcomes': [], 'tail': 'ErrA'}
    scheds = [draw(G.schedules(prog)) for _ in range(3)]
    return {'program': prog, 'variant': var, 'scheds': scheds, 'oneof_in_recurrent': cons,
            'lazy_in_recurrent_failing': failing}


def oracle_oneof_routing_per_iteration(o, case):
    out = []
    prog = case['program']
    cons = case['oneof_in_recurrent']
    mark = [m for _, m in S.node_index(prog)[cons]['params'] if m[0] == 'oneof'][0]
    alive = [c for c in mark[1] if c not in case['lazy_in_recurrent_failing']]
    ents = [e for e in o.bodies if e['node'] == cons]
    for i, e in enumerate(ents):
        v = e['kwargs'].get('k0')
        if not alive:
            out.append(('consumer-ran-without-candidate', f'iteration {i}: every candidate fails but {cons} ran with '
                                                          f'k0 = {R.canon(v)}'))
        elif not R.is_value(v) or v[1] != alive[0]:
            out.append(('wrong-candidate-routed', f'iteration {i}: {cons}.k0 = {R.canon(v)} (expected the value of '
                                                  f'{alive[0]}, the first candidate that does not fail)'))
        elif dict(v[3]).get('n1', 0) != i:
            out.append(('stale-candidate-value', f'iteration {i}: {cons}.k0 = {R.canon(v)} belongs to iteration '
                                                 f'{dict(v[3]).get("n1", 0)}'))
    return out


def oracle_iteration_bounds(o, program):
    """model-free bounds that hold for every program shape, also where laziness inside a recurrent subgraph is
    known to be broken (F8): a node outside every start->destination path executes at most once (plus its retry
    attempts), and a node on such a path executes at most once per iteration of the subgraph(s) containing it"""
    out = []
    g = S.deps_graph(program)
    idx = S.node_index(program)
    counts = {}
    for e in o.bodies:
        counts[e['node']] = counts.get(e['node'], 0) + 1
    paths = []
    for _, _, m in S.rec_marks(program):
        if (m[1], m[2]) not in [(p[0], p[1]) for p in paths]:
            paths.append((m[1], m[2], S.rec_path_nodes(program, m[1], m[2], g)))
    for nid, c in counts.items():
        attempts = idx[nid].get('attempts') or 1
        mine = [p for p in paths if nid in p[2]]
        if not mine:
            if c > attempts:
                out.append(('outside-node-re-executed', f'{nid} is on no start->destination path but ran {c} times '
                                                        f'(attempts={attempts})'))
            continue
        iterations = 1
        for _, dest, _ in mine:
            # every Recurrent result of the destination grants one more iteration
            iterations *= 1 + sum(1 for e in o.bodies if e['node'] == dest and e.get('outcome') == 'rec')
        if c > iterations * attempts:
            out.append(('too-many-executions-per-iteration', f'{nid} ran {c} times in {iterations} iteration(s) '
                                                             f'(attempts={attempts})'))
    return out


class C09(EngineCheck):
    id = 'C09'
    feats = ('switch', 'fail', 'unknown_label', 'oneof', 'retry', 'default', 'generic', 'falsy')
    p_feat = 50
    rule = ('case = program with nested / sibling / shared switches (cases may be ancestors, the input node or plain '
            'inputs of other nodes), every declared label and unknown ones chosen per variant x 4 schedules; the '
            'consumer kwarg digest equals the selected case, nodes the reference never demands are never executed, '
            'shared cases run once, an unknown label gives an error result; non-trivial = a switch with >=2 cases of '
            'which one has a node exclusive to a non-selected case, or an unknown label, or a selected case that is '
            'also needed elsewhere')

    def strategy(self, tier):
        kw = self.gen_kwargs(tier)

        def with_switch(case):
            return S.has_kind(case['program'], 'sw')

        base = G.cases(**kw).map(_sanitize).filter(with_switch)

        @st.composite
        def undeclared_label(draw):
            # one decider returns something no case declares, including what a decider returns by accident
            case = draw(base)
            deciders = sorted({m[2] for n in case['program']['nodes'] for _, m in n['params'] if m[0] == 'sw'})
            dec = draw(st.sampled_from(deciders))
            case['variant']['nodes'].setdefault(dec, {})['label'] = draw(
                st.sampled_from([None, None, 0, '', False, 'NOPE', 'l0', 'L0 ', 'L']))
            case['variant']['nodes'][dec].pop('labels', None)
            return case

        return st.one_of(base, base, base, base, base, base, undeclared_label(),
                         switch_in_recurrent_templates(tier), same_decider_templates(tier),
                         case_also_plain_templates(tier))

    def oracle(self, case, refres, obs):
        v = []
        for i, o in enumerate(obs):
            v += _tag(O.oracle_outcome(o, refres), i)
            if o.status != 'done':
                continue
            if case.get('switch_in_recurrent'):
                # F8 region: laziness is known to be broken there; routing must still be right in every iteration
                v += _tag(oracle_routing_per_iteration(o, case), i)
                continue
            v += _tag(O.oracle_executed(o, refres), i)
            v += _tag([x for x in O.oracle_kwargs(o, refres) if x[0] == 'wrong-kwargs'], i)
        return v

    def _facts(self, case, refres):
        prog = case['program']
        facts = set()
        if case.get('switch_in_recurrent'):
            facts.add('switch-inside-recurrent-label-changes')
        for n in prog['nodes']:
            if n['id'] not in refres['demanded']:
                continue
            for kw, m in n['params']:
                if m[0] != 'sw':
                    continue
                if any(c not in refres['demanded'] for _, c in m[3]) and len(m[3]) >= 2:
                    facts.add('lazy-case-skipped')
                if unknown_label(case['variant']['nodes'].get(m[2], {})):
                    facts.add('unknown-label')
                sel = [c for l, c in m[3] if l == case['variant']['nodes'].get(m[2], {}).get('label')]
                cons = S.consumers(prog)
                if sel and len([1 for c in cons[sel[0]] if c[0] in refres['demanded']]) >= 2:
                    facts.add('selected-case-shared')
        return facts

    def nontrivial(self, case, refres, obs):
        return bool(self._facts(case, refres))

    def classes(self, case, refres, obs):
        return super().classes(case, refres, obs) + sorted(self._facts(case, refres))


# ------------------------------------------------------------------------------------------------ C10
@st.composite
def shared_failure_templates(draw, tier):
    """directed shape named in the property: a node shared between the sub-pipeline of a (losing) candidate and a
    consumer outside the one-of. The shared node fails or succeeds; a slow sibling is released at EVERY position of
    the run (one delay schedule per position), so both orders 'candidate scope executes the shared node first' and
    'main scope executes it first' are reached."""
    def N(nid, params=(), mode='gated', **kw):
        d = {'id': nid, 'params': [list(p) for p in params], 'mode': mode}
        d.update(kw)
        return d
    ext = st.sampled_from(['gated', 'gated', 'thread', 'process'])
    nodes = [N('n0', mode=draw(st.sampled_from(['coro', 'inline', 'gated'])))]

    def add(params, **kw):
        nid = f'n{len(nodes)}'
        nodes.append(N(nid, params, mode=draw(ext), **kw))
        return nid

    gate = add([('k0', ['in', 'n0'])])
    shared = add([('k0', ['in', gate])])
    top = shared
    for _ in range(draw(st.integers(0, 2))):
        top = add([('k0', ['in', top])])
    a1 = add([('k0', ['in', top])])
    a2 = add([('k0', ['in', 'n0'])] if draw(st.booleans()) else [])
    cands = [a1, a2] if draw(st.integers(0, 3)) else [a2, a1]
    cons = add([('k0', ['oneof', cands])])
    slow = add([('k0', ['in', 'n0'])])
    after = slow
    for _ in range(draw(st.integers(1, 2))):
        after = add([('k0', ['in', after])])
    reader_kind = draw(st.sampled_from(['plain', 'plain', 'case', 'case-input']))
    if reader_kind == 'plain':
        reader = add([('k0', ['in', shared])])
        outs = [cons, after, reader]
    elif reader_kind == 'case-input':
        # the shared node is an input of the selected case of a switch in the main graph
        dec = add([('k0', ['in', slow if draw(st.booleans()) else 'n0'])])
        case_a = add([('k0', ['in', shared])])
        other = add([('k0', ['in', 'n0'])])
        reader = add([('k0', ['sw', 'sw_reader', dec, [['L0', case_a], ['L1', other]]])])
        outs = [cons, after, reader]
    else:
        dec = add([('k0', ['in', 'n0'])])
        other = add([('k0', ['in', 'n0'])])
        reader = add([('k0', ['sw', 'sw_reader', dec, [['L0', shared], ['L1', other]]])])
        outs = [cons, after, reader]
    order = draw(st.permutations(outs))
    out = add([(f'k{i}', ['in', x]) for i, x in enumerate(order)])
    prog = {'nodes': nodes, 'output': out}
    var = {'x': 0, 'nodes': {}}
    if draw(st.integers(0, 3)):
        var['nodes'][shared] = {'outcomes': [], 'tail': 'ErrA'}
    if reader_kind in ('case', 'case-input'):
        var['nodes'][dec] = {'label': 'L0'}
    held = draw(st.sampled_from([slow, slow, gate]))
    scheds = [{'kind': 'delay', 'node': held, 'after': k} for k in range(0, 12)]
    return {'program': prog, 'variant': var, 'scheds': scheds, 'template': 'shared-failure'}


@st.composite
def candidate_lazy_failure_templates(draw, tier):
    """directed shape: a one-of candidate needs a lazy construct (switch or nested one-of, whose helper task the
    engine creates itself) AND a plain dependency that fails; the failing dependency is held back and released at
    every position of the run, so the candidate is abandoned while its helper task is at every stage (not started,
    decider running, selected case running, done). The next candidate (or the one-of error) must be the outcome."""
    def N(nid, params=(), mode='gated', **kw):
        d = {'id': nid, 'params': [list(p) for p in params], 'mode': mode}
        d.update(kw)
        return d
    ext = st.sampled_from(['gated', 'gated', 'gated', 'thread', 'coro'])
    nodes = [N('n0', mode=draw(st.sampled_from(['coro', 'inline', 'gated'])))]

    def add(params, **kw):
        nid = f'n{len(nodes)}'
        nodes.append(N(nid, params, mode=draw(ext), **kw))
        return nid

    def chain(src, k):
        for _ in range(k):
            src = add([('k0', ['in', src])])
        return src

    fail = chain('n0', draw(st.integers(1, 2)))
    ca = chain('n0', draw(st.integers(1, 2)))
    cb = chain('n0', 1)
    kind = draw(st.sampled_from(['sw', 'sw', 'oneof']))
    var = {'x': 0, 'nodes': {fail: {'outcomes': [], 'tail': 'ErrA'}}}
    if kind == 'sw':
        dec = chain('n0', draw(st.integers(1, 2)))
        lazy = ['sw', 'sw_cand' if draw(st.booleans()) else None, dec, [['L0', ca], ['L1', cb]]]
        var['nodes'][dec] = {'label': draw(st.sampled_from(['L0', 'L0', 'L1']))}
    else:
        lazy = ['oneof', [ca, cb]]
        if draw(st.booleans()):
            var['nodes'][ca] = {'outcomes': [], 'tail': 'ErrB'}
    params = [('k0', lazy), ('k1', ['in', fail])]
    if draw(st.booleans()):
        params.reverse()
        params = [(f'k{i}', m) for i, (_, m) in enumerate(params)]
    c1 = add(params)
    c2 = add([('k0', ['in', 'n0'])] if draw(st.booleans()) else [])
    if draw(st.integers(0, 3)) == 0:
        var['nodes'][c2] = {'outcomes': [], 'tail': 'ErrC'}
    cons = add([('k0', ['oneof', [c1, c2]])])
    out = chain(cons, draw(st.integers(0, 1)))
    prog = {'nodes': nodes, 'output': out}
    scheds = [{'kind': 'delay', 'node': fail, 'after': k} for k in range(0, 10)]
    return {'program': prog, 'variant': var, 'scheds': scheds, 'template': 'candidate-lazy-failure'}


@st.composite
def nested_containment_templates(draw, tier):
    """directed shape: below the first candidate of an outer one-of sits a chain of 2-4 lazy constructs nested in each
    other (switch whose selected case is the next level / one-of whose candidates are the next level and a failing
    leaf); at the innermost level EVERY alternative fails. The failure must be contained level by level and the
    outer one-of must fall back to its next candidate (or report ITS OWN no-result error when that one fails too)."""
    def N(nid, params=(), mode='gated', **kw):
        d = {'id': nid, 'params': [list(p) for p in params], 'mode': mode}
        d.update(kw)
        return d
    ext = st.sampled_from(['gated', 'gated', 'coro', 'thread', 'inline'])
    nodes = [N('n0', mode='coro')]
    var = {'x': 0, 'nodes': {}}

    def add(params, **kw):
        nid = f'n{len(nodes)}'
        nodes.append(N(nid, params, mode=draw(ext), **kw))
        return nid

    def failing_leaf():
        nid = add([('k0', ['in', 'n0'])] if draw(st.booleans()) else [])
        var['nodes'][nid] = {'outcomes': [], 'tail': draw(st.sampled_from(['ErrA', 'ErrB']))}
        return nid

    def level(depth):
        """returns a node whose evaluation fails because everything below it fails"""
        kind = draw(st.sampled_from(['sw', 'oneof']))
        if depth == 0:
            inner = [failing_leaf() for _ in range(draw(st.integers(1, 2)))]
        else:
            inner = [level(depth - 1)]
            if draw(st.booleans()):
                inner.insert(draw(st.integers(0, 1)), failing_leaf())
        if kind == 'oneof' or len(inner) == 1 and draw(st.booleans()):
            return add([('k0', ['oneof', inner])])
        dec = add([('k0', ['in', 'n0'])])
        other = add([('k0', ['in', 'n0'])])
        cases = [['L0', inner[0]], ['L1', other]]
        var['nodes'][dec] = {'label': 'L0'}
        params = [('k0', ['sw', f'sw_{len(nodes)}' if draw(st.booleans()) else None, dec, cases])]
        if len(inner) > 1:
            params.append(('k1', ['oneof', inner[1:]]))
        return add(params)

    c1 = level(draw(st.integers(1, 3)))
    c2 = add([('k0', ['in', 'n0'])] if draw(st.booleans()) else [])
    if draw(st.integers(0, 3)) == 0:
        var['nodes'][c2] = {'outcomes': [], 'tail': 'ErrC'}
    out = add([('k0', ['oneof', [c1, c2]])])
    if draw(st.booleans()):
        out = add([('k0', ['in', out])])
    prog = {'nodes': nodes, 'output': out}
    scheds = [draw(G.schedules(prog)) for _ in range(3)]
    return {'program': prog, 'variant': var, 'scheds': scheds, 'template': 'nested-containment'}


@st.composite
def shared_between_candidates_templates(draw, tier):
    """directed shape: the first candidate of a one-of needs a node F that fails AND a node X that the next candidate
    needs too. X is a plain node, or a node with a switch / one-of parameter whose selected alternative has a slow
    private dependency. F is released at every position of the run: before X is requested, while X (or the helper
    task resolving its lazy parameter) is in flight, after it. Losing the first candidate must never cost the second
    one its X."""
    def N(nid, params=(), mode='gated', **kw):
        d = {'id': nid, 'params': [list(p) for p in params], 'mode': mode}
        d.update(kw)
        return d
    ext = st.sampled_from(['gated', 'gated', 'gated', 'thread', 'coro', 'inline'])
    nodes = [N('n0', mode=draw(st.sampled_from(['coro', 'inline', 'gated'])))]
    var = {'x': 0, 'nodes': {}}

    def add(params, mode=None, **kw):
        nid = f'n{len(nodes)}'
        nodes.append(N(nid, params, mode=mode or draw(ext), **kw))
        return nid

    def chain(src, k):
        for _ in range(k):
            src = add([('k0', ['in', src])])
        return src

    # the failing node comes first in declaration (and topological) order in half of the cases
    f_first = draw(st.booleans())

    def failing_branch():
        # the failing node itself, or a node behind it (the candidate then notices the failure through a descendant)
        head = add([('k0', ['in', 'n0'])] if draw(st.booleans()) else [])
        var['nodes'][head] = {'outcomes': [], 'tail': 'ErrA'}
        return head, chain(head, draw(st.integers(0, 1)))

    if f_first:
        f_head, f = failing_branch()
    kind = draw(st.sampled_from(['plain', 'sw', 'sw', 'oneof']))
    if kind == 'plain':
        x = chain('n0', draw(st.integers(1, 2)))
    else:
        slow = chain('n0', draw(st.integers(1, 2)))
        ca = add([('k0', ['in', slow])])
        cb = add([('k0', ['in', 'n0'])])
        if kind == 'sw':
            dec = add([('k0', ['in', 'n0'])])
            var['nodes'][dec] = {'label': 'L0'}
            x = add([('k0', ['sw', 'sw_x' if draw(st.booleans()) else None, dec, [['L0', ca], ['L1', cb]]])])
        else:
            x = add([('k0', ['oneof', [ca, cb]])])
    if not f_first:
        f_head, f = failing_branch()
    p1 = [('k0', ['in', x]), ('k1', ['in', f])]
    if draw(st.booleans()):
        p1 = [('k0', ['in', f]), ('k1', ['in', x])]
    c1 = add(p1)
    c2 = add([('k0', ['in', x])])
    cands = [c1, c2]
    if draw(st.integers(0, 2)) == 0:
        cands.append(add([('k0', ['in', f])]))
    cons = add([('k0', ['oneof', cands])])
    out = chain(cons, draw(st.integers(0, 1)))
    prog = {'nodes': nodes, 'output': out}
    held = draw(st.sampled_from([f_head, f_head, x] + ([slow] if kind != 'plain' else [])))
    scheds = [{'kind': 'delay', 'node': held, 'after': k} for k in range(0, 9)] + [draw(G.schedules(prog))]
    return {'program': prog, 'variant': var, 'scheds': scheds, 'template': 'shared-between-candidates'}


def oracle_oneof_order(o, program, refres):
    """a candidate node's body starts only after every earlier candidate has failed (checked where the reference
    attributes the earlier candidate's failure to node bodies only)"""
    out = []
    if refres['ambiguous']:
        return out
    first_start = {}
    for e in o.bodies:
        first_start.setdefault(e['node'], e['seq'])
    fails = [(e['node'], e.get('end') or e['seq']) for e in o.bodies if e.get('outcome') not in ('ok', 'rec', None)]
    for n in program['nodes']:
        for kw, m in n['params']:
            if m[0] != 'oneof':
                continue
            for j, cj in enumerate(m[1]):
                if cj not in first_start:
                    continue
                for ci in m[1][:j]:
                    causes = refres['cand_causes'].get((n['id'], kw, ci))
                    if causes is None:
                        out.append(('candidate-tried-after-success',
                                    f'{n["id"]}.{kw}: candidate {cj} started although the earlier candidate {ci} '
                                    f'does not fail'))
                        continue
                    if any(c[0] != 'node' for c in causes):
                        continue
                    nodes = {c[1] for c in causes}
                    if not any(f in nodes and s < first_start[cj] for f, s in fails):
                        out.append(('candidate-tried-before-earlier-failed',
                                    f'{n["id"]}.{kw}: candidate {cj} started before any of {sorted(nodes)} (the '
                                    f'failures of the earlier candidate {ci}) had failed'))
    return out


class C10(EngineCheck):
    id = 'C10'
    quick_examples = 1000
    feats = ('oneof', 'fail', 'falsy', 'switch', 'retry', 'default', 'generic')
    p_feat = 50
    quick_nodes = (3, 9)
    rule = ('case = program with nested / sibling / chained one-ofs, failing nodes at any depth of the candidate '
            'sub-pipelines, None / falsy candidates x 4 schedules; the consumer receives the first candidate (declared '
            'order) that succeeds per the reference, later candidates and nodes only they need are never executed, a '
            'candidate body starts only after every earlier candidate failed, contained failures never surface as '
            'error or argument, exhaustion gives OneOfDoesNotHaveResultError; non-trivial = at least one losing '
            'candidate')
    floors = {'losing-candidate': 0.3}

    def strategy(self, tier):
        kw = self.gen_kwargs(tier)
        base = G.cases(**kw).map(_sanitize).filter(lambda c: S.has_kind(c['program'], 'oneof'))
        return st.one_of(base, base, base, base, base, base, base, base, base, shared_failure_templates(tier),
                         candidate_lazy_failure_templates(tier), nested_containment_templates(tier),
                         shared_between_candidates_templates(tier))

    def oracle(self, case, refres, obs):
        v = []
        for i, o in enumerate(obs):
            v += _tag(O.oracle_outcome(o, refres), i)
            if o.status != 'done':
                continue
            v += _tag(O.oracle_executed(o, refres), i)
            v += _tag(O.oracle_kwargs(o, refres), i)
            v += _tag([x for x in O.oracle_kwargs_model_free(o, case['program'])
                       if x[0] == 'exception-as-argument'], i)
            v += _tag(oracle_oneof_order(o, case['program'], refres), i)
        return v

    def _losing(self, case, refres):
        failed = {nid for nid, inv in refres['invocations'].items() if inv and inv[-1]['outcome'] not in ('ok', 'rec')}
        g = S.deps_graph(case['program'])
        for n in case['program']['nodes']:
            if n['id'] not in refres['demanded']:
                continue
            for _, m in n['params']:
                if m[0] == 'oneof' and m[1][0] in refres['demanded']:
                    if (S.ancestors(g, m[1][0]) | {m[1][0]}) & failed:
                        return True
        return False

    def nontrivial(self, case, refres, obs):
        return self._losing(case, refres)

    def classes(self, case, refres, obs):
        cl = super().classes(case, refres, obs)
        if self._losing(case, refres):
            cl.append('losing-candidate')
        d = oneof_failure_depth(case['program'], refres)
        if d is not None:
            cl.append(f'oneof-failure-depth:{min(d, 4)}')
        return cl


# ------------------------------------------------------------------------------------------------ C11
class C11(EngineCheck):
    id = 'C11'
    quick_examples = 900
    feats = ('rec', 'fail', 'retry', 'default', 'oneof', 'switch', 'generic')
    p_feat = 55
    quick_nodes = (3, 9)
    rule = ('case = program with single / nested recurrent subgraphs (also inside one-of candidates and switch cases), '
            'requested iterations 0..max+1, with / without use_default x 4 schedules; the per-node invocation sequence '
            '(epoch, attempt, kwargs incl. additional_data) equals the reference: exactly the start->dest path nodes '
            're-run, min(r, max) times, outside nodes once, consumers see the first non-Recurrent value or the default, '
            'else RecurrentSubgraphDoesNotHaveResultError; non-trivial = at least one re-iteration happened')
    floors = {'re-iterated': 0.3}

    def strategy(self, tier):
        kw = self.gen_kwargs(tier)
        base = G.cases(**kw).map(_sanitize).filter(lambda c: S.has_kind(c['program'], 'rec'))
        return st.one_of(*([base] * 12), rec_consumer_templates(tier), switch_in_recurrent_templates(tier),
                         oneof_in_recurrent_templates(tier))

    def oracle(self, case, refres, obs):
        v = []
        for i, o in enumerate(obs):
            v += _tag(O.oracle_outcome(o, refres), i)
            if o.status != 'done':
                continue
            v += _tag(oracle_iteration_bounds(o, case['program']), i)
            if case.get('switch_in_recurrent'):
                # F8 region (laziness inside the subgraph is a known finding): bounds, routing and the final value
                v += _tag(oracle_routing_per_iteration(o, case), i)
                continue
            if case.get('oneof_in_recurrent'):
                v += _tag(oracle_oneof_routing_per_iteration(o, case), i)
                continue
            v += _tag(O.oracle_executed(o, refres), i)
            v += _tag(O.oracle_kwargs(o, refres), i)
            v += _tag([x for x in O.oracle_kwargs_model_free(o, case['program'])
                       if x[0] == 'recurrent-as-argument'], i)
        return v

    def nontrivial(self, case, refres, obs):
        return any(i['epoch'] > 0 for v in refres['invocations'].values() for i in v)


CHECKS = [C01(), C02(), C03(), C04(), C05(), C09(), C10(), C11()]
