"""verifkit: property-based testing / fuzzing machinery for tochka-public/ml-pipeline-engine.

The engine is imported from REPO (default /repo); a check aborts with exit code 2 if the
imported package does not live there.
"""
import os
import sys

REPO = os.environ.get('VERIF_REPO', '/repo')
VERIF = os.path.dirname(os.path.dirname(os.path.abspath(__file__)))


def ensure_engine():
    """Put REPO first on sys.path and verify the engine is imported from it."""
    if REPO not in sys.path:
        sys.path.insert(0, REPO)
    import logging

    import ml_pipeline_engine

    f = os.path.realpath(ml_pipeline_engine.__file__)
    if not f.startswith(os.path.realpath(REPO) + os.sep):
        print(f'HARNESS-ERROR: ml_pipeline_engine imported from {f}, not from {REPO}', flush=True)
        sys.exit(2)
    logging.disable(logging.CRITICAL)
    return ml_pipeline_engine
