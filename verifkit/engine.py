"""Run one engine case under the virtual loop and return an observation."""
from verifkit import compile as C
from verifkit import ref as REF
from verifkit import runtime as R
from verifkit import session as SS


class Obs:
    pass


def build_collab(collab):
    collab = collab or {}
    ems = [R.make_event_manager(i, gated=e.get('gated', False), raise_plan=e.get('raise'))
           for i, e in enumerate(collab.get('ems', []))]
    st = collab.get('store')
    store = R.make_store(gated=st.get('gated', False), raise_plan=st.get('raise'),
                         write_once=st.get('write_once', True)) if st else None
    return ems, store


def step_budget(refres):
    # measured: loop iterations / max(30, predicted work) <= 2.1 over 4500 generated runs (all constructs, gated
    # collaborators); 40x leaves a 20-fold margin and ends a livelock quickly
    return 40 * max(50, refres['work'])


def observe(sess, h, compiled):
    o = Obs()
    o.status = sess.status
    o.outcome = h.outcome
    o.result = h.result
    o.trace = h.rec.trace
    o.raised = h.rec.raised
    o.rec = h.rec
    o.iters = sess.loop.iters
    o.done_iter = h.done_iter
    o.fire_log = list(sess.loop.fire_log)
    o.fire_seq = list(sess.loop.fire_seq)
    o.choice_log = list(getattr(sess.loop.chooser, 'log', []))
    o.max_outstanding = sess.loop.max_outstanding
    o.leftovers = [t.get_name() for t in sess.leftovers()]
    o.pending_ext = [l for l, _ in sess.loop.pending]
    o.unhandled = list(sess.loop.unhandled)
    o.compiled = compiled
    o.input_kwargs = h.input_kwargs
    o.input_kwargs_before = h.input_kwargs_before
    o.vtime = sess.loop.time()
    o.bodies = [e for e in o.trace if e['kind'] == 'body']
    o.executed = {e['node'] for e in o.bodies}
    o.post_start_iter = sess.loop.post_start_iter
    return o


def run_once(program, variant, sched=None, *, compiled=None, chart=None, collab=None, cancel_at=None,
             max_iters=None, tag='r0', refres=None, input_kwargs=None):
    compiled = compiled or C.compile_program(program)
    if chart is None:
        ems, store = build_collab(collab)
        chart = compiled.build_chart(ems, store)
    if max_iters is None:
        refres = refres or REF.reference(program, variant)
        max_iters = step_budget(refres)
    sess = SS.Session(SS.make_chooser(sched), max_iters=max_iters)
    try:
        h = sess.start_run(compiled, chart, variant, tag=tag, input_kwargs=input_kwargs)
        if cancel_at is not None:
            sess.cancel_at(h, cancel_at)
        sess.drive()
        o = observe(sess, h, compiled)
        o.chart = chart
        return o
    finally:
        sess.close()


def outcome_key(o):
    """schedule-independent summary of an outcome for metamorphic comparison"""
    oc = o.outcome
    if o.status != 'done':
        return ('status', o.status)
    if oc[0] == 'value':
        return ('value', R.canon(oc[1]))
    if oc[0] == 'error':
        return ('error',)
    if oc[0] == 'raised':
        return ('raised', type(oc[1]).__name__)
    return (oc[0],)
