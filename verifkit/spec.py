"""Program specs (JSON-able dicts) and structural helpers.

program = {
  'nodes':  [node, ...]          # dependency order; nodes[0] is the input node
  'output': id,
}
node = {
  'id': 'n3',
  'params': [[kwarg, mark], ...]
        mark = ['in', id] | ['sw', name|None, switch_id, [[label, case_id], ...]]
             | ['oneof', [cand_id, ...]] | ['rec', start_id, dest_id, max_iterations]
  'mode': 'gated' | 'coro' | 'inline' | 'thread' | 'process'
  'rec_dest': bool            -> derives RecurrentProcessor
  'additional_data': bool     -> declares the additional_data parameter
  'attempts': None|int, 'delay': None|number, 'exceptions': None|[ 'ErrA'|'ErrA2'|'ErrB'|'ErrC'|'NodeFail', ...], 'use_default': bool
  'generic': bool             -> produced through build_node() from a generic base
  'generic_base': str         -> generic nodes with the same value are built from ONE shared variadic base class
  'both_tags': 'tp'|'pt'      -> process-mode nodes: thread and process tags together, in this order
  'named': bool               -> explicit `name` attribute (else module_Class derived id)
  'extra_plain': int          -> number of extra plain annotated parameters with defaults
  'doc': bool
}
variant = {
  'x': int,                                     # becomes input_kwargs['x']
  'nodes': { id: { 'outcomes': ['ok'|'ErrA'|'ErrA2'(subclass of ErrA)|'ErrB'|'ErrC'|'Fatal', ...]  # by invocation index in this run
                   'tail': 'ok'|'ErrA'|...,      # outcome after the list is exhausted
                   'label': str,                 # switch nodes: the label they return
                   'rec_n': int,                 # destinations: ask next_iteration while iteration tag < rec_n
                   'rec_data': 'zero'|'none_after_first',  # destinations: pass 0 / pass 1 then None (default: iteration+1)
                   'value': 'prov'|'none'|'zero'|'empty'|'false'|'list' } }
}
"""
import hashlib
import json

MODES = ('gated', 'coro', 'inline', 'thread', 'process')
ERR_NAMES = ('ErrA', 'ErrB', 'ErrC')


def node_index(program):
    return {n['id']: n for n in program['nodes']}


def input_id(program):
    return program['nodes'][0]['id']


def marks_of(node):
    return [(k, m) for k, m in node['params']]


def mark_sources(mark):
    """all node ids a mark refers to (for edges)"""
    k = mark[0]
    if k == 'in':
        return [mark[1]]
    if k == 'sw':
        return [mark[2]] + [c for _, c in mark[3]]
    if k == 'oneof':
        return list(mark[1])
    if k == 'rec':
        return [mark[2]]
    raise ValueError(mark)


def direct_deps(program, nid, idx=None):
    idx = idx or node_index(program)
    n = idx[nid]
    out = []
    for _, m in n['params']:
        for s in mark_sources(m):
            if s not in out:
                out.append(s)
    if not n['params'] and nid != input_id(program):
        out.append(input_id(program))
    return out


def deps_graph(program):
    idx = node_index(program)
    return {nid: set(direct_deps(program, nid, idx)) for nid in idx}


def ancestors(g, nid):
    seen = set()
    st = [nid]
    while st:
        x = st.pop()
        for d in g[x]:
            if d not in seen:
                seen.add(d)
                st.append(d)
    return seen


def reachable(program):
    g = deps_graph(program)
    return ancestors(g, program['output']) | {program['output']}


def rec_path_nodes(program, start, dest, g=None):
    """nodes on dependency paths start -> dest (inclusive)"""
    g = g or deps_graph(program)
    a = ancestors(g, dest) | {dest}
    return {n for n in a if n == start or start in ancestors(g, n)}


def consumers(program):
    """node -> list of (consumer, kwarg, mark, role) where role in in/switch/case/cand/rec"""
    out = {n['id']: [] for n in program['nodes']}
    for n in program['nodes']:
        for kw, m in n['params']:
            if m[0] == 'in':
                out[m[1]].append((n['id'], kw, m, 'in'))
            elif m[0] == 'sw':
                out[m[2]].append((n['id'], kw, m, 'switch'))
                for _, c in m[3]:
                    out[c].append((n['id'], kw, m, 'case'))
            elif m[0] == 'oneof':
                for c in m[1]:
                    out[c].append((n['id'], kw, m, 'cand'))
            elif m[0] == 'rec':
                out[m[2]].append((n['id'], kw, m, 'rec'))
    return out


def rec_marks(program):
    out = []
    for n in program['nodes']:
        for kw, m in n['params']:
            if m[0] == 'rec':
                out.append((n['id'], kw, m))
    return out


def has_kind(program, kind, only_reachable=True):
    r = reachable(program) if only_reachable else None
    for n in program['nodes']:
        if r is not None and n['id'] not in r:
            continue
        for _, m in n['params']:
            if m[0] == kind:
                return True
    return False


def digest(obj, n=12):
    return hashlib.sha1(json.dumps(obj, sort_keys=True, default=repr).encode()).hexdigest()[:n]


def compact(program, variant=None):
    """one line per node, for samples in evidence and for humans"""
    lines = []
    vn = (variant or {}).get('nodes', {})
    for n in program['nodes']:
        ps = []
        for kw, m in n['params']:
            if m[0] == 'in':
                ps.append(f'{kw}<-{m[1]}')
            elif m[0] == 'sw':
                ps.append(f'{kw}<-SW[{m[1]}]({m[2]}:' + ','.join(f'{l}=>{c}' for l, c in m[3]) + ')')
            elif m[0] == 'oneof':
                ps.append(f'{kw}<-ONEOF(' + ','.join(m[1]) + ')')
            elif m[0] == 'rec':
                ps.append(f'{kw}<-REC({m[1]}..{m[2]},max={m[3]})')
        attrs = [n['mode']]
        for k in ('attempts', 'delay', 'exceptions'):
            if n.get(k) is not None:
                attrs.append(f'{k}={n[k]}')
        for k in ('use_default', 'rec_dest', 'additional_data', 'generic'):
            if n.get(k):
                attrs.append(k)
        if n.get('generic') and n.get('generic_base'):
            attrs.append('base=' + n['generic_base'])
        b = vn.get(n['id'])
        if b:
            attrs.append('beh=' + json.dumps(b, sort_keys=True))
        lines.append(f"{n['id']}({', '.join(ps)}) [{' '.join(attrs)}]")
    lines.append(f"output={program['output']}")
    return lines


def is_generic(program, n):
    return bool(n.get('generic')) and bool(n['params']) and n['id'] != input_id(program) \
        and not n.get('additional_data')


def shared_generic_groups(program):
    """{base id: [node ids]} for generic nodes that are built from one shared base class (>= 2 members which agree
    on everything that lives on the base: execution mode, tags, base type)"""
    groups = {}
    for n in program['nodes']:
        if is_generic(program, n) and n.get('generic_base') and n.get('named', True):
            key = (n['generic_base'], n['mode'], bool(n.get('thread_tag')), bool(n.get('rec_dest')),
                   bool(n.get('plain_base')))
            groups.setdefault(key, []).append(n['id'])
    return {'_'.join(str(int(x)) if isinstance(x, bool) else str(x) for x in k): v
            for k, v in groups.items() if len(v) >= 2}


def clone(program):
    return json.loads(json.dumps(program))
