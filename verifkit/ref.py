"""Reference model: a pure, demand-driven dataflow interpreter written against the *spec* (never DAG.graph).

It calls the same pure body functions as the generated node bodies (runtime.pure_result / outcome_at), so the
value of every node is a deterministic function of the spec and the variant.

Result fields
  ok            bool
  value         the run's value (ok)
  causes        admissible causes (not ok): ('node', nid, inv) | ('fatal', nid, inv) | ('oneof', consumer, kw)
                | ('rec', dest) | ('switch', consumer, kw, label)
  invocations   nid -> [ {epoch, attempt, kwargs, outcome} ... ]  in the order the node's body is invoked
  defaults      nid -> [kwargs ...]  get_default calls
  demanded      set of nodes demanded at all
  certain       nodes demanded in a context that completed successfully (only meaningful when ok)
  finals        nid -> final value (after retries / default / recurrence) for nodes with an ok result
  delivered     consumer -> [ {epoch, kwargs} ] per *execution* (one per retry sequence)
  ambiguous     list of reasons why the documentation does not fix the answer (reference not authoritative)
  work          predicted body invocations + gates + timers (for step budgets)
"""
from verifkit import runtime as R
from verifkit import spec as S


def engine_kwargs(kwargs):
    """the kwargs the engine itself passes (additional_data is omitted while it is None)"""
    return {k: v for k, v in kwargs.items() if not (k == 'additional_data' and v is None)}


class RefFail(Exception):
    def __init__(self, causes):
        super().__init__(causes)
        self.causes = list(causes)


class RecMarker:
    def __init__(self, data):
        self.data = data


class Reference:
    def __init__(self, program, variant, input_kwargs=None):
        self.p = program
        self.idx = S.node_index(program)
        self.inp = S.input_id(program)
        self.variant = variant
        self.beh = variant.get('nodes', {})
        self.input_kwargs = dict(input_kwargs) if input_kwargs is not None else {'x': variant.get('x', 0), 'tag': 'r0'}
        self.g = S.deps_graph(program)
        self.rec_start_of = {}
        for _, _, m in S.rec_marks(program):
            self.rec_start_of[m[2]] = m[1]
        self.memo = {}
        self.epoch = {}
        self.counts = {}
        self.invocations = {}
        self.defaults = {}
        self.executions = {}
        self.addl = {}
        self.last_kwargs = {}
        self.finals = {}
        self.all_demanded = set()
        self.frames = [set()]
        self.maybe = set()
        self.ambiguous = []
        self.timers = 0
        self.active_rec = set()
        self.fatal_hit = False
        self.failed = {}
        self.labels = {}
        self.cand_causes = {}
        self.flags = {}  # finding id -> nodes whose behaviour puts the case into that finding's region

    # ------------------------------------------------------------------ body with retry/default policy
    def _execute(self, nid, kwargs):
        n = self.idx[nid]
        beh = self.beh.get(nid, {})
        attempts = n.get('attempts') or 1
        excs = tuple(n.get('exceptions') or ()) or None  # None = any Exception
        ep = self.epoch.get(nid, 0)
        self.executions.setdefault(nid, []).append({'epoch': ep, 'kwargs': dict(kwargs)})
        self.last_kwargs[nid] = dict(kwargs)
        att = 0
        while True:
            att += 1
            inv = self.counts.get(nid, 0) + 1
            self.counts[nid] = inv
            out = R.outcome_at(beh, inv)
            self.invocations.setdefault(nid, []).append(
                {'epoch': ep, 'attempt': att, 'inv': inv, 'kwargs': dict(kwargs), 'outcome': out})
            if out == 'ok':
                kind, v = R.pure_result(nid, n, beh, kwargs, self.rec_start_of.get(nid))
                if kind == 'rec':
                    self.invocations[nid][-1]['outcome'] = 'rec'
                    return RecMarker(v)
                return v
            if out == 'Fatal':
                self.fatal_hit = True
                raise RefFail([('fatal', nid, inv)])
            retryable = excs is None or R.exc_matches(out, excs)
            if retryable and att < attempts:
                self.timers += 1
                continue
            if n.get('use_default'):
                dkw = engine_kwargs(kwargs)
                self.defaults.setdefault(nid, []).append(dkw)
                return R.default_value(nid, n, dkw)
            self.failed[nid] = ('node', nid, inv)
            raise RefFail([('node', nid, inv)])

    # ------------------------------------------------------------------ demand
    def need(self, nid):
        self.all_demanded.add(nid)
        self.frames[-1].add(nid)
        if nid in self.memo:
            r = self.memo[nid]
        else:
            try:
                r = ('ok', self._run(nid))
            except RefFail as f:
                r = ('fail', f.causes)
            self.memo[nid] = r
        if r[0] == 'fail':
            raise RefFail(r[1])
        return r[1]

    def _run(self, nid):
        n = self.idx[nid]
        kwargs = {}
        causes = []
        if nid == self.inp:
            kwargs = dict(self.input_kwargs)
        elif not n['params']:
            try:
                self.need(self.inp)
            except RefFail as f:
                causes += f.causes
                if any(i['outcome'] in ('ok', 'rec') for i in self.invocations.get(self.inp, [])):
                    # the input node succeeded in an earlier iteration and failed in a later one: a node that only
                    # waits for it (no value) may already have run - and failed - in between
                    self.ambiguous.append(f'implicit reader {nid} of an input node that failed in a later iteration')
        for kw, m in n['params']:
            try:
                kwargs[kw] = self._mark(nid, kw, m)
            except RefFail as f:
                causes += f.causes
        if causes:
            raise RefFail(causes)
        if n.get('additional_data'):
            ad = self.addl.get(nid)
            if ad is not None:
                kwargs['additional_data'] = ad
                owners = [d for d, s in self.rec_start_of.items() if s == nid]
                if not any(d in self.active_rec for d in owners):
                    self.ambiguous.append(f'start node {nid} re-executed outside its own subgraph iteration '
                                          f'with sticky additional_data')
            else:
                kwargs['additional_data'] = None
        v = self._execute(nid, kwargs)
        if not isinstance(v, RecMarker):
            self.finals[nid] = v
        return v

    def _mark(self, consumer, kw, m):
        k = m[0]
        if k == 'in':
            v = self.need(m[1])
            if isinstance(v, RecMarker):
                # a Recurrent marker read through a plain Input: outside the sound domain (W4)
                self.ambiguous.append(f'{consumer}.{kw} reads recurrent destination {m[1]} through Input')
                raise RefFail([('rec', m[1])])
            return v
        if k == 'sw':
            label = self.need(m[2])
            if isinstance(label, RecMarker):
                self.ambiguous.append(f'switch node {m[2]} returned Recurrent')
                raise RefFail([('rec', m[2])])
            cases = {}
            for l, c in m[3]:
                cases.setdefault(l, c)
            self.labels[(consumer, kw)] = label if isinstance(label, str) else None
            if not isinstance(label, str) or label not in cases:
                raise RefFail([('switch', consumer, kw, label)])
            try:
                v = self.need(cases[label])
            except RefFail:
                if len(self.frames) > 1:
                    # F9: the selected case of a switch fails inside the sub-pipeline of a one-of candidate
                    self.flags.setdefault('F9', set()).add((consumer, kw))
                raise
            if isinstance(v, RecMarker):
                self.ambiguous.append(f'case node {cases[label]} returned Recurrent')
                raise RefFail([('rec', cases[label])])
            return v
        if k == 'oneof':
            fatal = []
            for c in m[1]:
                self.frames.append(set())
                try:
                    v = self.need(c)
                    if isinstance(v, RecMarker):
                        self.ambiguous.append(f'candidate {c} returned Recurrent')
                        raise RefFail([('rec', c)])
                    fr = self.frames.pop()
                    self.frames[-1] |= fr
                    return v
                except RefFail as f:
                    fr = self.frames.pop()
                    self.maybe |= fr
                    self.cand_causes[(consumer, kw, c)] = list(f.causes)
                    fatal = [c_ for c_ in f.causes if c_[0] == 'fatal']
                    if fatal:
                        # a BaseException is not an ordinary failure: it is not contained by the one-of. Whether the
                        # node that raises it is reached at all depends on which failure stops the candidate first
                        # (the engine stops a candidate on its first error, this model evaluates everything)
                        if len(f.causes) > len(fatal):
                            self.ambiguous.append(f'Fatal next to an ordinary failure inside candidate {c}')
                        raise RefFail(fatal)
                    continue
            raise RefFail([('oneof', consumer, kw)])
        if k == 'rec':
            _, start, dest, maxit = m
            v = self.need(dest)
            it = 0
            path = None
            while isinstance(v, RecMarker):
                if it >= maxit:
                    if self.idx[dest].get('use_default'):
                        kwargs = engine_kwargs(self.last_kwargs[dest])
                        self.defaults.setdefault(dest, []).append(dict(kwargs))
                        v = R.default_value(dest, self.idx[dest], kwargs)
                        self.memo[dest] = ('ok', v)
                        self.finals[dest] = v
                        break
                    self.memo[dest] = ('fail', [('rec', dest)])
                    raise RefFail([('rec', dest)])
                it += 1
                if path is None:
                    path = S.rec_path_nodes(self.p, start, dest, self.g)
                self.addl[start] = v.data
                for pn in path:
                    if pn in self.memo:
                        del self.memo[pn]
                        self.epoch[pn] = self.epoch.get(pn, 0) + 1
                    self.finals.pop(pn, None)
                self.active_rec.add(dest)
                try:
                    v = self.need(dest)
                finally:
                    self.active_rec.discard(dest)
            return v
        raise ValueError(m)

    # ------------------------------------------------------------------
    def required(self, nid, memo=None):
        """nodes every way of computing `nid` needs (one-of: intersection over candidates), with the switch
        selections this run made"""
        memo = {} if memo is None else memo
        if nid in memo:
            return memo[nid]
        memo[nid] = {nid}  # cycle guard (programs are acyclic)
        n = self.idx[nid]
        req = {nid}
        if not n['params'] and nid != self.inp:
            req |= self.required(self.inp, memo)
        for kw, m in n['params']:
            if m[0] == 'in':
                req |= self.required(m[1], memo)
            elif m[0] == 'rec':
                req |= self.required(m[2], memo)
            elif m[0] == 'sw':
                req |= self.required(m[2], memo)
                label = self.labels.get((nid, kw))
                cases = {}
                for l, c in m[3]:
                    cases.setdefault(l, c)
                if label in cases:
                    req |= self.required(cases[label], memo)
            elif m[0] == 'oneof':
                sets = [self.required(c, memo) for c in m[1]]
                if sets:
                    req |= set.intersection(*sets)
        memo[nid] = req
        return req

    def run(self):
        res = {}
        try:
            v = self.need(self.p['output'])
            if isinstance(v, RecMarker):
                self.ambiguous.append('output node returned Recurrent')
                raise RefFail([('rec', self.p['output'])])
            res['ok'] = True
            res['value'] = v
            res['causes'] = []
        except RefFail as f:
            res['ok'] = False
            res['value'] = None
            seen = []
            for c in f.causes:
                if c not in seen:
                    seen.append(c)
            # a node every alternative needs is a real root cause too, even when a one-of contains it
            req = self.required(self.p['output'])
            for nid, c in self.failed.items():
                if nid in req and c not in seen:
                    seen.append(c)
            res['causes'] = seen
        certain = self.frames[0]
        res.update(
            invocations=self.invocations, defaults=self.defaults, executions=self.executions,
            demanded=set(self.all_demanded), certain=set(certain) if res['ok'] else set(), maybe=self.all_demanded - set(certain),
            finals=dict(self.finals), ambiguous=list(self.ambiguous), fatal=self.fatal_hit, flags=dict(self.flags), cand_causes=dict(self.cand_causes),
            work=sum(len(v) for v in self.invocations.values()) * 3 + self.timers + 10,
            not_demanded={n['id'] for n in self.p['nodes']} - self.all_demanded,
        )
        return res


def reference(program, variant, input_kwargs=None):
    return Reference(program, variant, input_kwargs).run()
