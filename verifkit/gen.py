"""Hypothesis strategies for programs, behaviour variants and schedules (construction, not rejection).

Well-formedness rules W1-W7 of DESIGN.md are satisfied by construction.  `clean=True` additionally avoids, by
construction, the shapes listed in known_findings.json (see findings.py) and counts nothing at run time:
the avoided shapes are simply never built.
"""
from hypothesis import strategies as st

from verifkit import spec as S

ALL_FEATS = ('switch', 'oneof', 'rec', 'fail', 'retry', 'falsy', 'unknown_label', 'generic', 'fatal', 'default')


def _weighted(draw, pairs):
    pool = []
    for v, w in pairs:
        pool.extend([v] * w)
    return draw(st.sampled_from(pool))


class _B:
    """builder state"""

    def __init__(self):
        self.nodes = []
        self.idx = {}
        self.consumed = set()      # nodes read by someone (any role)
        self.cands = set()
        self.rec_dests = set()
        self.sealed = set()        # interior nodes of recurrent subgraphs (clean): not readable from outside
        self.recs = []             # (start, dest, path)

    def prog(self, output=None):
        return {'nodes': self.nodes, 'output': output or self.nodes[-1]['id']}

    def graph(self):
        return S.deps_graph(self.prog())


@st.composite
def programs(draw, feats=ALL_FEATS, min_nodes=2, max_nodes=8, clean=True, modes=S.MODES, p_feat=35,
             max_params=3, layered=False, mode_weights=None, p_layered=6):
    feats = set(feats)
    b = _B()
    n_nodes = draw(st.integers(min_nodes, max_nodes))
    mode_w = mode_weights or {'gated': 4, 'thread': 2, 'process': 1, 'coro': 1, 'inline': 1}
    mode_st = st.sampled_from([m for m in modes for _ in range(mode_w.get(m, 1))])
    wide = draw(st.booleans())
    # shape: 'layered' programs have explicit layers (wide generations => many completions outstanding at once)
    layered = layered or draw(st.integers(0, 9)) < p_layered
    layer_of = {'n0': 0}
    if layered:
        remaining = n_nodes - 2
        li = 1
        k = 1
        while remaining > 0:
            w = draw(st.sampled_from([x for x in (1, 2, 2, 3, 3, 4) if x <= remaining]))
            for _ in range(w):
                layer_of[f'n{k}'] = li
                k += 1
            remaining -= w
            li += 1
        layer_of[f'n{n_nodes - 1}'] = li
    inp = {'id': 'n0', 'params': [], 'mode': draw(mode_st)}
    b.nodes.append(inp)
    b.idx['n0'] = inp
    for i in range(1, n_nodes):
        nid = f'n{i}'
        last = i == n_nodes - 1
        node = {'id': nid, 'params': [], 'mode': draw(mode_st)}
        nparams = _weighted(draw, [(0, 1), (1, 4), (2, 3), (3, 2)]) if not last else _weighted(draw, [(1, 3), (2, 3), (3, 2)])
        nparams = min(nparams, max_params)
        used = set()  # sources used by this node (pairwise distinct)

        def readable(x, used=used):
            return x not in used and x not in b.cands and x not in b.rec_dests and x not in b.sealed

        def pick(pred=readable, used=used, nid=nid):
            pool = [n['id'] for n in b.nodes if pred(n['id'])]
            if not pool:
                return None
            fresh = [x for x in pool if x not in b.consumed and x != 'n0']
            prev = [x for x in pool if layer_of.get(x) == layer_of.get(nid, -9) - 1] if layered else []
            if prev and draw(st.integers(0, 5)) != 0:
                pf = [x for x in prev if x in fresh]
                pool = pf if pf and draw(st.integers(0, 3)) != 0 else prev
            elif fresh and draw(st.integers(0, 2)) != 0:
                pool = fresh
            elif wide and len(pool) > 2 and pred is readable:
                pool = pool[:max(2, (len(pool) + 1) // 2)]
            x = draw(st.sampled_from(pool))
            used.add(x)
            return x

        for j in range(nparams):
            kinds = [('in', 100 - p_feat)]
            each = max(1, p_feat // 3)
            if 'switch' in feats:
                kinds.append(('sw', each))
            if 'oneof' in feats:
                kinds.append(('oneof', each))
            if 'rec' in feats:
                kinds.append(('rec', each))
            kind = _weighted(draw, kinds)
            kw = f'k{j}'
            if kind == 'sw':
                # sometimes reuse an existing named switch mark (one synthetic switch node shared by two consumers)
                prior = [m for n_ in b.nodes for _, m in n_['params'] if m[0] == 'sw' and m[1] is not None
                         and all(readable(x) for x in S.mark_sources(m))]
                if prior and draw(st.integers(0, 3)) == 0:
                    m = draw(st.sampled_from(prior))
                    node['params'].append([kw, [m[0], m[1], m[2], [list(c) for c in m[3]]]])
                    used.update(S.mark_sources(m))
                    continue
                # sometimes the decider of an earlier switch again (two different switches driven by one node)
                deciders = [m[2] for n_ in b.nodes for _, m in n_['params'] if m[0] == 'sw' and readable(m[2])]
                same_decider = False
                if deciders and draw(st.integers(0, 2)) == 0:
                    sw = draw(st.sampled_from(deciders))
                    used.add(sw)
                    same_decider = True
                else:
                    sw = pick()
                if sw is None:
                    continue
                ncase = _weighted(draw, [(1, 1), (2, 3), (3, 2)])
                cases = []
                for c in range(ncase):
                    x = pick()
                    if x is None:
                        break
                    cases.append([f'L{c}', x])
                if not cases:
                    node['params'].append([kw, ['in', sw]])
                    b.consumed.add(sw)
                    continue
                name = f'sw_{nid}_{j}' if draw(st.integers(0, 3)) else None
                if same_decider and draw(st.booleans()):
                    # two UNNAMED switches of one decider must stay two synthetic nodes
                    name = None
                    for n_ in b.nodes:
                        for p_ in n_['params']:
                            if p_[1][0] == 'sw' and p_[1][2] == sw:
                                p_[1][1] = None
                node['params'].append([kw, ['sw', name, sw, cases]])
                b.consumed.add(sw)
                b.consumed.update(c for _, c in cases)
            elif kind == 'oneof':
                def free(x, used=used):
                    return (x != 'n0' and x not in used and x not in b.consumed and x not in b.cands
                            and x not in b.rec_dests and x not in b.sealed)
                ncand = _weighted(draw, [(1, 1), (2, 3), (3, 2)])
                cands = []
                for _ in range(ncand):
                    x = pick(free)
                    if x is None:
                        break
                    cands.append(x)
                if not cands:
                    x = pick()
                    if x is not None:
                        node['params'].append([kw, ['in', x]])
                        b.consumed.add(x)
                    continue
                node['params'].append([kw, ['oneof', cands]])
                b.cands.update(cands)
                b.consumed.update(cands)
            elif kind == 'rec':
                # sometimes a second consumer of an existing recurrent destination (same start / max_iterations)
                prior = [m for n_ in b.nodes for _, m in n_['params'] if m[0] == 'rec' and m[2] not in used
                         and not (clean and m[2] in b.sealed)  # interior of an enclosing subgraph: F6 region
                         and not any(pn in used for pn in S.rec_path_nodes(b.prog(), m[1], m[2]))]
                if prior and draw(st.integers(0, 2)) == 0:
                    m = draw(st.sampled_from(prior))
                    node['params'].append([kw, ['rec', m[1], m[2], m[3]]])
                    used.add(m[2])
                    continue
                r = _try_rec(draw, b, used, clean)
                if r is None:
                    x = pick()
                    if x is not None:
                        node['params'].append([kw, ['in', x]])
                        b.consumed.add(x)
                    continue
                start, dest, maxit = r
                node['params'].append([kw, ['rec', start, dest, maxit]])
                used.add(dest)
                b.consumed.add(dest)
            else:
                x = pick()
                if x is None:
                    continue
                node['params'].append([kw, ['in', x]])
                b.consumed.add(x)
        b.nodes.append(node)
        b.idx[nid] = node
    prog = b.prog()
    _decorate(draw, prog, feats)
    return prog


def _decorate(draw, prog, feats):
    # node attributes
    for n in prog['nodes']:
        if 'retry' in feats and draw(st.integers(0, 3)) == 0:
            n['attempts'] = draw(st.sampled_from([None, 1, 2, 2, 3, 4]))
            n['delay'] = draw(st.sampled_from([None, None, 0, 0.5, 1, 2.5]))
            n['exceptions'] = draw(st.sampled_from([None, None, ['ErrA'], ['ErrA', 'ErrB'], ['ErrB'], ['ErrC', 'ErrA'],
                                                    ['ErrA2'], ['NodeFail'], ['ErrA'], ['ErrB', 'ErrA2']]))
        if 'default' in feats and draw(st.integers(0, 4)) == 0:
            n['use_default'] = True
        if n.get('rec_dest') and 'default' in feats and draw(st.booleans()):
            n['use_default'] = True
        if 'generic' in feats and n['params'] and n['id'] != 'n0' and not n.get('additional_data') \
                and draw(st.integers(0, 5)) == 0:
            n['generic'] = True
        if draw(st.integers(0, 9)) == 0:
            n['named'] = False
        if n['mode'] == 'thread' and draw(st.booleans()):
            n['thread_tag'] = True
        if n['mode'] == 'process' and draw(st.integers(0, 2)) == 0:
            # the process tag next to the (otherwise unused) thread tag, in either order: still the process pool
            n['both_tags'] = draw(st.sampled_from(['tp', 'pt']))
    if 'generic' in feats and draw(st.integers(0, 3)) == 0:
        # a family of nodes built from ONE shared generic base (reusable node with different wirings)
        by_mode = {}
        for n in prog['nodes']:
            if n['params'] and n['id'] != 'n0' and not n.get('additional_data') and n.get('named', True):
                by_mode.setdefault((n['mode'], bool(n.get('thread_tag')), bool(n.get('rec_dest'))), []).append(n)
        fams = [v for _, v in sorted(by_mode.items()) if len(v) >= 2]
        if fams:
            fam = draw(st.sampled_from(fams))
            k = draw(st.integers(2, min(4, len(fam))))
            for n in draw(st.permutations(fam))[:k]:
                n['generic'] = True
                n['generic_base'] = 'f'


@st.composite
def nested_programs(draw, feats=ALL_FEATS, max_depth=3, max_nodes=12, modes=S.MODES):
    """expression-tree shaped programs: lazy constructs nested inside each other (a switch inside a one-of candidate
    inside a switch case ...), with sharing of sub-expressions. Complements the DAG-shaped `programs`."""
    feats = set(feats)
    mode_w = {'gated': 4, 'thread': 2, 'process': 1, 'coro': 1, 'inline': 1}
    mode_st = st.sampled_from([m for m in modes for _ in range(mode_w.get(m, 1))])
    nodes = [{'id': 'n0', 'params': [], 'mode': draw(mode_st)}]
    cands = set()

    def new_node(params):
        nid = f'n{len(nodes)}'
        nodes.append({'id': nid, 'params': params, 'mode': draw(mode_st)})
        return nid

    def distinct(ids):
        out = []
        for x in ids:
            if x not in out:
                out.append(x)
        return out

    def expr(depth, exclusive=False):
        kinds = [('leaf', 2)]
        if depth > 0 and len(nodes) < max_nodes:
            kinds.append(('plain', 3))
            if 'switch' in feats:
                kinds.append(('sw', 3))
            if 'oneof' in feats:
                kinds.append(('oneof', 3))
        kind = _weighted(draw, kinds)
        if kind == 'leaf':
            share = [n['id'] for n in nodes if n['id'] not in cands]
            if not exclusive and len(share) > 1 and draw(st.booleans()):
                return draw(st.sampled_from(share))
            return new_node([['k0', ['in', 'n0']]] if draw(st.booleans()) else [])
        if kind == 'plain':
            kids = distinct([expr(depth - 1) for _ in range(draw(st.integers(1, 2)))])
            return new_node([[f'k{i}', ['in', c]] for i, c in enumerate(kids)])
        if kind == 'sw':
            sw = expr(depth - 1)
            cs = distinct([expr(depth - 1) for _ in range(draw(st.integers(1, 3)))])
            cs = [c for c in cs if c != sw]
            if not cs:
                return new_node([['k0', ['in', sw]]])
            params = [['k0', ['sw', f'sw_n{len(nodes)}', sw, [[f'L{i}', c] for i, c in enumerate(cs)]]]]
            if draw(st.integers(0, 2)) == 0:
                extra = expr(0)
                if extra != sw and extra not in cs:
                    params.append(['k1', ['in', extra]])
            return new_node(params)
        # oneof
        cs = distinct([expr(depth - 1, exclusive=True) for _ in range(draw(st.integers(1, 3)))])
        cs = [c for c in cs if c != 'n0' and c not in cands]
        # a candidate must be consumed by its one-of only: wrap anything that is already used elsewhere
        fixed = []
        consumed = {s for n in nodes for _, m in n['params'] for s in S.mark_sources(m)}
        for c in cs:
            fixed.append(new_node([['k0', ['in', c]]]) if c in consumed else c)
        if not fixed:
            return new_node([['k0', ['in', 'n0']]])
        cands.update(fixed)
        return new_node([['k0', ['oneof', fixed]]])

    root = expr(draw(st.integers(1, max_depth)))
    if root == 'n0' or root in cands or root != nodes[-1]['id']:
        root = new_node([['k0', ['in', root]]]) if root not in cands else new_node([['k0', ['oneof', [root]]]])
    prog = {'nodes': nodes, 'output': root}
    _decorate(draw, prog, feats)
    return prog


def _try_rec(draw, b, used, clean):
    """choose (start, dest, max_iterations) for a new recurrent subgraph or None"""
    prog = b.prog()
    g = S.deps_graph(prog)
    dests = [n['id'] for n in b.nodes
             if n['id'] != 'n0' and n['id'] not in b.consumed and n['id'] not in b.cands
             and n['id'] not in b.rec_dests and n['id'] not in used and n['id'] not in b.sealed]
    if not dests:
        return None
    dest = draw(st.sampled_from(dests))
    anc = sorted(S.ancestors(g, dest), key=lambda x: int(x[1:]))
    cons = S.consumers(prog)
    options = []
    for start in anc:
        if start in b.cands or start in b.rec_dests:
            continue
        path = S.rec_path_nodes(prog, start, dest, g)
        if clean:
            ok = True
            for pn in path:
                if pn == dest:
                    continue
                # interior (incl. start) may only be read by path nodes
                if any(c not in path for c, _, _, _ in cons[pn]):
                    ok = False
                    break
            if not ok:
                continue
            # only plain / nested-rec marks on the path (no lazy construct inside a recurrent subgraph)
            if any(m[0] in ('sw', 'oneof') for pn in path for _, m in b.idx[pn]['params']):
                continue
            # disjoint or properly nested wrt existing subgraphs
            for s0, d0, p0 in b.recs:
                inter = path & p0
                if inter and not (p0 <= path and start not in p0):
                    ok = False
                    break
            if not ok:
                continue
            if any(pn in used for pn in path if pn != dest):
                continue
        options.append((start, path))
    if not options:
        return None
    start, path = draw(st.sampled_from(options))
    maxit = draw(st.sampled_from([1, 2, 2, 3]))
    b.idx[dest]['rec_dest'] = True
    b.idx[start]['additional_data'] = True
    b.rec_dests.add(dest)
    b.recs.append((start, dest, path))
    if clean:
        b.sealed |= (path - {dest})
    return start, dest, maxit


@st.composite
def variants(draw, program, feats=ALL_FEATS, x=None, p_fail=9):
    feats = set(feats)
    cons = S.consumers(program)
    rec_max = {}
    for _, _, m in S.rec_marks(program):
        rec_max[m[2]] = m[3]
    var = {'x': draw(st.integers(0, 3)) if x is None else x, 'nodes': {}}
    outcomes_pool = ['ErrA'] * 5 + ['ErrA2'] * 2 + ['ErrB'] * 2 + ['ErrC'] + (['Fatal'] if 'fatal' in feats else [])
    for n in program['nodes']:
        beh = {}
        nid = n['id']
        sw = [m for _, _, m, role in cons[nid] if role == 'switch']
        if sw:
            labels = []
            for m in sw:
                labels += [l for l, _ in m[3]]
            if 'unknown_label' in feats and draw(st.integers(0, 11)) == 0:
                # a label no case declares - also the values a decider returns by accident (None, 0, '', False)
                beh['label'] = draw(st.sampled_from(['NOPE', None, None, 0, '', False, 'l0']))
            else:
                beh['label'] = draw(st.sampled_from(sorted(set(labels))))
        if nid in rec_max:
            mx = rec_max[nid]
            beh['rec_n'] = draw(st.sampled_from([0, 1, 1, 2, mx, mx, mx + 1]))
            if beh['rec_n'] and draw(st.integers(0, 4)) == 0:
                # next_iteration(0): falsy additional_data must reach the start node like any other value (the start
                # then looks like iteration 0 again, so the destination keeps asking until iterations are exhausted);
                # next_iteration(None) after next_iteration(1): the start node must NOT see the earlier data again
                beh['rec_data'] = draw(st.sampled_from(['zero', 'none_after_first']))
                if beh['rec_data'] == 'none_after_first':
                    beh['rec_n'] = max(beh['rec_n'], 2)
        if 'fail' in feats and draw(st.integers(0, 99)) < p_fail:
            k = _weighted(draw, [(0, 3), (1, 3), (2, 2), (3, 1)])
            outs = [draw(st.sampled_from(outcomes_pool + ['ok'])) for _ in range(k)]
            beh['outcomes'] = outs
            if k == 0 or draw(st.integers(0, 3)) == 0:
                beh['tail'] = draw(st.sampled_from(outcomes_pool))
        # None / falsy results matter most where the engine looks at a result to decide something: one-of candidates,
        # switch cases, recurrent destinations, the output node
        decisive = nid == program['output'] or nid in rec_max or any(role in ('cand', 'case') for _, _, _, role in cons[nid])
        if 'falsy' in feats and 'label' not in beh and draw(st.integers(0, 4 if decisive else 11)) == 0:
            beh['value'] = draw(st.sampled_from(['none', 'none', 'zero', 'empty', 'false', 'list']))
        if beh:
            var['nodes'][nid] = beh
    if 'fail' in feats and draw(st.integers(0, 3)) == 0:
        focus_shared_failure(draw, program, var)
    return var


def focus_shared_failure(draw, program, var):
    """a node that belongs to several lazily built scopes (main pipeline / candidate / case sub-pipelines) fails
    for good - the failure is met by whichever scope executes the node first"""
    from verifkit import findings as F
    sc = F.scopes(program)
    inp = program['nodes'][0]['id']
    lazy = [nodes for name, nodes in sc.items() if name != 'main']
    shared = sorted(n for n in sc['main'] if n != inp and any(n in nodes for nodes in lazy))
    if not shared:
        shared = sorted(n for n in {x for nodes in lazy for x in nodes}
                        if n != inp and sum(1 for nodes in lazy if n in nodes) >= 2)
    if not shared:
        return False
    idx = S.node_index(program)
    hard = [n for n in shared if not idx[n].get('use_default')]
    nid = draw(st.sampled_from(hard or shared))
    beh = var['nodes'].setdefault(nid, {})
    beh['outcomes'] = []
    beh['tail'] = 'ErrA'
    var['focus_fail'] = nid
    return True


@st.composite
def schedules(draw, program=None, max_tape=48, collab=False):
    kind = _weighted(draw, [('index', 5), ('rank', 3), ('delay', 3), ('fifo', 1)])
    if kind == 'fifo':
        return {'kind': 'index', 'tape': []}
    if kind == 'delay':
        ids_ = [n['id'] for n in program['nodes']] if program else [f'n{i}' for i in range(10)]
        sched = {'kind': 'delay', 'node': draw(st.sampled_from(ids_)), 'after': draw(st.integers(1, 14))}
        if collab:
            # withhold the node's body completion, or the event callbacks / artifact saves made on its behalf
            sched['what'] = draw(st.sampled_from(['body', 'collab', 'collab', 'ev', 'save', 'any']))
        return sched
    if kind == 'index':
        n = draw(st.integers(0, max_tape))
        tape = draw(st.lists(st.sampled_from([0, 0, 0, 1, 1, 2, 3, 4]), min_size=n, max_size=n))
        return {'kind': 'index', 'tape': tape}
    ids = [n['id'] for n in program['nodes']] if program else [f'n{i}' for i in range(10)]
    ranks = {}
    for nid in ids:
        ranks[nid] = draw(st.integers(0, 9))
    return {'kind': 'rank', 'ranks': ranks, 'timer': draw(st.integers(0, 9)),
            'default': draw(st.sampled_from([0, 5, 50]))}


@st.composite
def cases(draw, feats=ALL_FEATS, clean=True, n_scheds=3, **kw):
    """a full engine case: program + variant + schedules"""
    p_nested = kw.pop('p_nested', 3)
    p_fail = kw.pop('p_fail', 9)
    collab_scheds = kw.pop('collab_scheds', False)
    if p_nested and draw(st.integers(0, p_nested)) == 0 and ({'switch', 'oneof'} & set(feats)):
        prog = draw(nested_programs(feats=feats, max_nodes=max(6, kw.get('max_nodes', 8) + 2)))
    else:
        prog = draw(programs(feats=feats, clean=clean, **kw))
    var = draw(variants(prog, feats=feats, p_fail=p_fail))
    scheds = [draw(schedules(prog, collab=collab_scheds)) for _ in range(n_scheds)]
    return {'program': prog, 'variant': var, 'scheds': scheds}


@st.composite
def layered_dags(draw, max_layers=5, max_width=4, modes=S.MODES):
    """plain-Input DAGs with explicit layers: every node draws >=1 parent from the previous layer and optional
    parents from earlier ones, the output joins the last layer (wide generations are the norm)"""
    mode_st = st.sampled_from([m for m in modes for _ in range({'gated': 3, 'thread': 2}.get(m, 1))])
    nodes = [{'id': 'n0', 'params': [], 'mode': draw(mode_st)}]
    layers = [['n0']]
    k = 1
    for _ in range(draw(st.integers(1, max_layers - 1))):
        width = draw(st.sampled_from([1, 2, 2, 3, 3, 4][:max(1, max_width + 2)]))
        layer = []
        for _ in range(min(width, max_width)):
            nid = f'n{k}'
            k += 1
            prev = layers[-1]
            earlier = [x for l in layers[:-1] for x in l]
            parents = [draw(st.sampled_from(prev))]
            for _ in range(draw(st.integers(0, 2))):
                pool = [x for x in prev + earlier if x not in parents]
                if pool:
                    parents.append(draw(st.sampled_from(pool)))
            node = {'id': nid, 'params': [[f'k{j}', ['in', p]] for j, p in enumerate(parents)],
                    'mode': draw(mode_st)}
            if draw(st.integers(0, 6)) == 0:
                node['generic'] = True
            nodes.append(node)
            layer.append(nid)
        layers.append(layer)
    last = layers[-1]
    out_parents = list(last)
    extra = [x for l in layers[1:-1] for x in l]
    for _ in range(draw(st.integers(0, 2))):
        pool = [x for x in extra if x not in out_parents]
        if pool:
            out_parents.append(draw(st.sampled_from(pool)))
    nodes.append({'id': f'n{k}', 'params': [[f'k{j}', ['in', p]] for j, p in enumerate(out_parents)],
                  'mode': draw(mode_st)})
    return {'nodes': nodes, 'output': f'n{k}'}
