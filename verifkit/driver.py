"""Common check driver: regression replays, known-finding witnesses, Hypothesis search with shrinking,
sharding for the thorough tier, evidence, exit codes.

exit 0  property held on everything explored
exit 1  + line `VIOLATION property=<id> replay=<path>`
exit 2  harness error (never disguised as a violation)
"""
import collections
import json
import os
import subprocess
import sys
import tempfile
import time
import traceback

from verifkit import VERIF
from verifkit import spec as S

REPLAYS = os.path.join(VERIF, 'replays')
REGRESS = os.path.join(REPLAYS, 'regress')
EVIDENCE = os.path.join(VERIF, 'evidence')
NSHARDS = 16
SHRINK_CPU_S = 150  # CPU seconds Hypothesis may spend shrinking one failure
# CPU seconds one check process may use in total (a quick check normally needs < 60, a thorough shard < 600): a tree
# on which every run spins into its per-run CPU budget must end the check as inconclusive (exit 2), not occupy it for
# hours. CPU time, not wall clock; a violation seen before the budget ran out is still reported.
TOTAL_CPU_S = {'quick': float(os.environ.get('VK_TOTAL_CPU', 1200)), 'thorough': float(os.environ.get('VK_TOTAL_CPU', 5400))}
_PROC_CPU0 = time.process_time()


class BudgetExhausted(BaseException):
    """derives from BaseException so that Hypothesis does not treat it as a failing example"""


class Verdict:
    def __init__(self, violations=(), nontrivial=False, classes=(), sample=None, runs=1, excluded=()):
        self.violations = list(violations)  # [(symptom, detail)]
        self.nontrivial = nontrivial
        self.classes = list(classes)
        self.sample = sample
        self.runs = runs
        self.excluded = list(excluded)


class Check:
    """Subclasses define: id, level, rule, technique; strategy(tier); examine(case) -> Verdict."""

    id = None
    level = 'exploration'
    rule = ''
    assumptions = ()
    quick_examples = 300
    thorough_examples = 1500  # per shard
    floors = {}  # class label -> minimal fraction of cases (acceptance criterion for the generator)

    def strategy(self, tier):
        raise NotImplementedError

    def examine(self, case):
        raise NotImplementedError

    def extra(self, tier, seed, stats):
        """optional additional exploration (systematic enumeration etc.). May raise ViolationFound."""

    def describe(self, case):
        return case


class ViolationFound(Exception):
    def __init__(self, case, violations):
        super().__init__(violations)
        self.case = case
        self.violations = violations


class Stats:
    def __init__(self):
        self.cases = 0
        self.runs = 0
        self.nontrivial = set()
        self.classes = collections.Counter()
        self.samples = []
        self.n_nontrivial_samples = 0
        self.excluded = collections.Counter()
        self.last_failing = None
        self.expensive_failure = False
        self.cpu_cap = TOTAL_CPU_S['thorough']
        self.first_failure_cpu = None
        self.extra = {}

    def record(self, check, case, verdict):
        if time.process_time() - _PROC_CPU0 > self.cpu_cap:
            raise BudgetExhausted()
        self.cases += 1
        self.runs += verdict.runs
        for c in verdict.classes:
            self.classes[c] += 1
        for e in verdict.excluded:
            self.excluded[e] += 1
        if verdict.nontrivial:
            self.nontrivial.add(S.digest(case, 16))
            if verdict.sample is not None and self.n_nontrivial_samples < 4:
                if self.n_nontrivial_samples == 0:
                    self.samples = []  # drop the trivial placeholder
                self.samples.append(verdict.sample)
                self.n_nontrivial_samples += 1
        elif not self.samples and verdict.sample is not None:
            self.samples.append(verdict.sample)

    def to_json(self):
        return {'cases': self.cases, 'runs': self.runs, 'nontrivial': sorted(self.nontrivial),
                'classes': dict(self.classes), 'samples': self.samples, 'excluded': dict(self.excluded),
                'extra': self.extra}


def write_replay(check_id, case, violations, hashseed=None):
    os.makedirs(REPLAYS, exist_ok=True)
    path = os.path.join(REPLAYS, f'{check_id}-{S.digest(case, 12)}.json')
    with open(path, 'w') as f:
        json.dump({'property': check_id, 'case': case,
                   'violations': [[s, str(d)[:2000]] for s, d in violations],
                   'hashseed': hashseed if hashseed is not None else os.environ.get('PYTHONHASHSEED')},
                  f, indent=1, default=repr)
    return path


def _hyp_search(check, tier, seed, n_examples, stats):
    from hypothesis import HealthCheck
    from hypothesis import given
    from hypothesis import seed as hseed
    from hypothesis import settings

    @hseed(seed)
    @settings(max_examples=n_examples, database=None, deadline=None, derandomize=False,
              report_multiple_bugs=False, suppress_health_check=list(HealthCheck), print_blob=False)
    @given(check.strategy(tier))
    def test(case):
        if stats.expensive_failure:
            return  # see below: no shrinking of a failure whose every replay costs seconds of CPU
        c0 = time.process_time()
        if stats.first_failure_cpu is not None and c0 - stats.first_failure_cpu > SHRINK_CPU_S:
            return  # shrinking budget (CPU seconds) used up: the smallest failure seen so far is reported
        verdict = check.examine(case)
        stats.record(check, case, verdict)
        if verdict.violations:
            bad = getattr(verdict, 'case_override', None) or case
            if stats.last_failing is None or len(json.dumps(bad, default=repr)) <= len(
                    json.dumps(stats.last_failing[0], default=repr)):
                stats.last_failing = (bad, verdict.violations)
            if stats.first_failure_cpu is None:
                stats.first_failure_cpu = time.process_time()
            if time.process_time() - c0 > 8:
                # e.g. a livelock that runs into the step / CPU budget: shrinking it would replay that cost hundreds
                # of times. The un-shrunk case is reported (the driver's flaky fallback confirms it by re-execution).
                stats.expensive_failure = True
            raise ViolationFound(bad, verdict.violations)

    test()


def _machine_search(check, tier, seed, n_examples, stats):
    from hypothesis import HealthCheck
    from hypothesis import seed as hseed
    from hypothesis import settings
    from hypothesis.stateful import run_state_machine_as_test

    machine = check.machine(tier, stats)
    st = settings(max_examples=n_examples, stateful_step_count=getattr(check, 'max_steps', 10), database=None,
                  deadline=None, derandomize=False, report_multiple_bugs=False,
                  suppress_health_check=list(HealthCheck), print_blob=False)
    run_state_machine_as_test(hseed(seed)(machine), settings=st)


def known_finding_lines(check):
    """replay the witnesses of the known findings that touch this property"""
    from verifkit import findings as F

    out = []
    try:
        cat = F.load_findings()
    except FileNotFoundError:
        return out
    for f in cat.get('findings', []):
        if check.id not in f.get('properties', []):
            continue
        w = f.get('witness', {}).get(check.id)
        if not w:
            continue
        with open(os.path.join(VERIF, w)) as fh:
            rep = json.load(fh)
        verdict = check.examine(rep['case'])
        syms = {s for s, _ in verdict.violations}
        expected = set(f.get('symptoms', {}).get(check.id, []))
        if verdict.violations and (not expected or syms & expected):
            out.append(f'KNOWN-FINDING: property={check.id} {f["id"]} {f["what"]} '
                       f'[witness {w}: {sorted(syms)}]')
        else:
            out.append(f'NOTE: property={check.id} witness of {f["id"]} no longer fails ({w})')
    return out


def regression_replays(check):
    """shrunk failures found during development (and witnesses of fixed defects): must pass"""
    n = 0
    if not os.path.isdir(REGRESS):
        return n
    for name in sorted(os.listdir(REGRESS)):
        if not name.startswith(check.id + '-') or not name.endswith('.json'):
            continue
        with open(os.path.join(REGRESS, name)) as fh:
            rep = json.load(fh)
        verdict = check.examine(rep['case'])
        n += 1
        if verdict.violations:
            raise ViolationFound(rep['case'], verdict.violations)
    return n


def run_shard(check, tier, seed, n_examples, out_path=None):
    """one process worth of search; returns (stats, failing or None)"""
    stats = Stats()
    stats.cpu_cap = TOTAL_CPU_S[tier]
    failing = None
    try:
        stats.extra['regress_replays'] = regression_replays(check)
        if hasattr(check, 'machine'):
            _machine_search(check, tier, seed, n_examples, stats)
        else:
            _hyp_search(check, tier, seed, n_examples, stats)
        check.extra(tier, seed, stats)
    except ViolationFound as v:
        failing = (v.case, v.violations)
    except BudgetExhausted:
        if stats.last_failing is None:
            print(f'HARNESS-ERROR: {check.id} used up its CPU budget ({stats.cpu_cap:.0f} s) after {stats.cases} cases '
                  f'without a verdict (inconclusive)', flush=True)
            raise
        failing = stats.last_failing  # a violation had been seen; the budget ran out while it was being shrunk
    except Exception as e:  # noqa: BLE001
        # Hypothesis reports a failure that does not reproduce identically while shrinking as Flaky*: fall back to
        # the last failing case seen and confirm it by plain re-execution; if it does not reproduce it is a
        # harness problem (exit 2), never a pass and never an unconfirmed violation
        if type(e).__name__.startswith('Flaky') and stats.last_failing is not None:
            case = stats.last_failing[0]
            for _ in range(3):
                verdict = check.examine(case)
                if verdict.violations:
                    failing = (case, verdict.violations)
                    break
            else:
                raise
        else:
            raise
    if out_path:
        with open(out_path, 'w') as f:
            json.dump({'stats': stats.to_json(), 'hashseed': os.environ.get('PYTHONHASHSEED'),
                       'failing': None if failing is None else {'case': failing[0], 'violations': [
                           [s, str(d)[:2000]] for s, d in failing[1]]}}, f, default=repr)
    return stats, failing


def merge_stats(parts):
    st = Stats()
    for p in parts:
        st.cases += p['cases']
        st.runs += p['runs']
        st.nontrivial |= set(p['nontrivial'])
        st.classes.update(p['classes'])
        st.excluded.update(p['excluded'])
        for s in p['samples']:
            if len(st.samples) < 4:
                st.samples.append(s)
        for k, v in p.get('extra', {}).items():
            if isinstance(v, (int, float)) and not isinstance(v, bool):
                st.extra[k] = st.extra.get(k, 0) + v
            else:
                st.extra.setdefault(k, v)
    return st


def write_evidence(check, tier, seed, stats, wall, violations, notes):
    os.makedirs(EVIDENCE, exist_ok=True)
    cov = {
        'evaluations': stats.runs,
        'cases': stats.cases,
        'distinct_nontrivial': len(stats.nontrivial),
        'rule': check.rule,
        'samples': stats.samples,
        'class_distribution': {k: round(v / max(1, stats.cases), 4) for k, v in sorted(stats.classes.items())},
        'class_counts': dict(sorted(stats.classes.items())),
        'excluded_by_construction': dict(stats.excluded),
        'floors': check.floors,
        'floors_met': {k: (stats.classes.get(k, 0) / max(1, stats.cases)) >= v for k, v in check.floors.items()},
        'known_findings': notes,
    }
    cov.update(stats.extra)
    if check.level == 'translation_validation':
        cov['programs'] = stats.cases
        cov['disagreements_checked'] = stats.runs
    ev = {
        'property_id': check.id, 'tier': tier, 'seed': seed, 'level': check.level,
        'coverage': cov, 'assumptions': list(check.assumptions), 'wall_s': round(wall, 2),
        'violations': violations,
    }
    with open(os.path.join(EVIDENCE, f'{check.id}.json'), 'w') as f:
        json.dump(ev, f, indent=1, default=repr)


def run_check(check, tier, seed, shard=None, out=None):
    t0 = time.time()
    if shard is not None:
        check.shard = (shard, NSHARDS)
        run_shard(check, tier, seed * 1000 + shard, check.thorough_examples, out)
        return 0
    check.shard = (0, 1)
    notes = known_finding_lines(check)
    for line in notes:
        print(line, flush=True)
    failing = None
    failing_hashseed = None
    if tier == 'quick':
        stats, failing = run_shard(check, tier, seed, check.quick_examples)
    else:
        tmp = tempfile.mkdtemp(prefix='vk_shards_')
        procs = []
        for i in range(NSHARDS):
            outp = os.path.join(tmp, f'shard{i}.json')
            cmd = [sys.executable, '-m', 'verifkit', 'check', check.id, '--tier', 'thorough',
                   '--shard', str(i), '--out', outp]
            # the engine iterates over sets of node-id strings: the hash seed is one more exploration dimension
            # (shard i runs with PYTHONHASHSEED=i; a replay file records it and `replay` restores it)
            env = dict(os.environ, VERIF_SEED=str(seed), PYTHONHASHSEED=str(i))
            procs.append((subprocess.Popen(cmd, cwd=VERIF, env=env), outp))
        parts = []
        harness_fail = False
        for p, outp in procs:
            rc = p.wait()
            if rc != 0 or not os.path.exists(outp):
                harness_fail = True
                continue
            with open(outp) as f:
                d = json.load(f)
            parts.append(d['stats'])
            if d['failing'] and failing is None:
                failing = (d['failing']['case'], [tuple(x) for x in d['failing']['violations']])
                failing_hashseed = d.get('hashseed')
        import shutil
        shutil.rmtree(tmp, ignore_errors=True)
        if harness_fail:
            print(f'HARNESS-ERROR: a shard of {check.id} failed', flush=True)
            return 2
        stats = merge_stats(parts)
    wall = time.time() - t0
    if failing is not None:
        path = write_replay(check.id, failing[0], failing[1], failing_hashseed)
        write_evidence(check, tier, seed, stats, wall, 1, notes)
        for s, d in failing[1][:5]:
            print(f'  {s}: {str(d)[:400]}')
        print(f'VIOLATION property={check.id} replay={path}', flush=True)
        return 1
    if stats.cases == 0 or len(stats.nontrivial) < 2:
        print(f'HARNESS-ERROR: vacuous run of {check.id}: cases={stats.cases} nontrivial={len(stats.nontrivial)}')
        return 2
    write_evidence(check, tier, seed, stats, wall, 0, notes)
    print(f'OK property={check.id} tier={tier} seed={seed} cases={stats.cases} runs={stats.runs} '
          f'nontrivial={len(stats.nontrivial)} wall={wall:.1f}s', flush=True)
    return 0


def replay_file(path, checks):
    with open(path) as f:
        rep = json.load(f)
    check = checks[rep['property']]
    verdict = check.examine(rep['case'])
    if verdict.violations:
        for s, d in verdict.violations:
            print(f'  {s}: {str(d)[:600]}')
        print(f'VIOLATION property={check.id} replay={path}', flush=True)
        return 1
    print(f'OK replay of {path}: no violation')
    return 0


def main(argv, checks):
    import argparse

    ap = argparse.ArgumentParser(prog='verifkit')
    sub = ap.add_subparsers(dest='cmd', required=True)
    c = sub.add_parser('check')
    c.add_argument('id')
    c.add_argument('--tier', default=os.environ.get('VERIF_TIER', 'quick'), choices=['quick', 'thorough'])
    c.add_argument('--shard', type=int, default=None)
    c.add_argument('--out', default=None)
    r = sub.add_parser('replay')
    r.add_argument('path')
    args = ap.parse_args(argv)
    want = '0'
    if args.cmd == 'replay':
        try:
            with open(args.path) as f:
                want = str(json.load(f).get('hashseed') or '0')
        except (OSError, ValueError):
            want = '0'
    cur = os.environ.get('PYTHONHASHSEED')
    if cur is None or (args.cmd == 'replay' and cur != want):
        env = dict(os.environ, PYTHONHASHSEED=want)
        os.execve(sys.executable, [sys.executable, '-m', 'verifkit'] + list(argv), env)
    seed = int(os.environ.get('VERIF_SEED', '1') or 1)
    try:
        if args.cmd == 'replay':
            return replay_file(args.path, checks)
        if args.id not in checks:
            print(f'HARNESS-ERROR: unknown check {args.id}')
            return 2
        return run_check(checks[args.id], args.tier, seed, args.shard, args.out)
    except SystemExit:
        raise
    except BaseException:  # noqa: BLE001
        traceback.print_exc()
        print('HARNESS-ERROR: internal exception in the check', flush=True)
        return 2
