"""Subprocess worker for C17 part B: sets the pool registries up through the PUBLIC API into a given state,
then runs generated programs on the real loop and reports what happened.

usage: python -m verifkit.poolworker <state> <cases.json> <out.json>
states: none | threads_only | process_only | threads_shutdown | process_shutdown | both |
        both_then_threads_shutdown | both_then_process_shutdown (every chart is run once with both pools ready, then
        the pool is shut down and the SAME chart objects are run again)
"""
import asyncio
import json
import os
import sys
import tempfile
import time

import verifkit

verifkit.ensure_engine()

from verifkit import compile as C  # noqa: E402
from verifkit import runtime as R  # noqa: E402


HISTORY_STATES = ('both_then_threads_shutdown', 'both_then_process_shutdown')


def setup(state):
    from ml_pipeline_engine.parallelism import process_pool_registry as P
    from ml_pipeline_engine.parallelism import threads_pool_registry as T

    if state in ('threads_only', 'threads_shutdown', 'process_shutdown', 'both') + HISTORY_STATES:
        T.auto_init()
    if state in ('process_only', 'threads_shutdown', 'process_shutdown', 'both') + HISTORY_STATES:
        P.auto_init()
    if state == 'threads_shutdown':
        T.shutdown()
    if state == 'process_shutdown':
        P.shutdown()


def main(argv):
    state, cases_path, out_path = argv
    trace = tempfile.mktemp(prefix='vk_pw_')
    os.environ['VK_TRACE_FILE'] = trace
    # generated modules are file-backed in a directory that is on sys.path BEFORE the process pool forks its
    # workers, so that a worker can import a module generated later when it unpickles a node
    moddir = tempfile.mkdtemp(prefix='vk_pwmod_')
    sys.path.insert(0, moddir)
    setup(state)
    with open(cases_path) as f:
        cases = json.load(f)

    def run_case(case, comp, chart):
        prog = case['program']
        rec = R.RunRec('r0', prog, case.get('variant') or {'x': 0, 'nodes': {}}, loop=None, rec_start_of=comp.rec_start_of)
        rec.file = trace
        R.CURRENT = rec
        open(trace, 'w').close()
        t0 = time.time()
        res = {}

        async def go():
            R.RUN.set(rec)
            return await asyncio.wait_for(chart.run(pipeline_id='p', input_kwargs={'x': rec.variant.get('x', 0), 'tag': 'r0'}), 20)

        try:
            r = asyncio.run(go())
            if r.error is not None:
                res['outcome'] = 'error'
                res['error_type'] = type(r.error).__name__
                res['error'] = str(r.error)[:200]
            else:
                res['outcome'] = 'value'
                res['value'] = repr(R.canon(r.value))
        except asyncio.TimeoutError:
            res['outcome'] = 'timeout'
        except BaseException as e:  # noqa: BLE001
            res['outcome'] = 'raised'
            res['error_type'] = type(e).__name__
            res['error'] = str(e)[:200]
        res['elapsed'] = time.time() - t0
        with open(trace) as f:
            worker = [l for l in f.read().split('\n') if l]
        res['bodies'] = len([e for e in rec.trace if e['kind'] == 'body']) + len(worker)
        R.CURRENT = None
        return res

    built = []
    for case in cases:
        comp = C.compile_program(case['program'], file_dir=moddir, embed=case.get('variant') or {'nodes': {}})
        built.append((case, comp, comp.build_chart()))
    results = [run_case(*b) for b in built]
    if state in HISTORY_STATES:
        # the SAME chart objects are run again after a pool they may need has been shut down
        from ml_pipeline_engine.parallelism import process_pool_registry as P
        from ml_pipeline_engine.parallelism import threads_pool_registry as T

        (T if state == 'both_then_threads_shutdown' else P).shutdown()
        results = [{'first': r1, 'second': run_case(*b)} for r1, b in zip(results, built)]
    with open(out_path, 'w') as f:
        json.dump(results, f)
    try:
        os.remove(trace)
    except OSError:
        pass
    import shutil
    shutil.rmtree(moddir, ignore_errors=True)
    # registries own real pools / a Manager process: shut them down explicitly
    from ml_pipeline_engine.parallelism import process_pool_registry as P
    from ml_pipeline_engine.parallelism import threads_pool_registry as T

    for reg in (T, P):
        try:
            reg.shutdown()
        except Exception:  # noqa: BLE001
            pass
    return 0


if __name__ == '__main__':
    sys.exit(main(sys.argv[1:]))
