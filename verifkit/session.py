"""Run compiled programs on the virtual loop and collect observations."""
import asyncio
import contextlib
import copy
import os
import signal
import threading

from verifkit import runtime as R
from verifkit import vloop as V


def make_chooser(sched):
    """sched: {'kind': 'index', 'tape': [...]} | {'kind': 'rank', 'ranks': {node: rank}, 'timer': r}"""
    if sched is None:
        return V.IndexTape(())
    k = sched.get('kind', 'index')
    if k == 'index':
        return V.IndexTape(sched.get('tape', ()))
    if k == 'rank':
        return V.RankChooser(sched.get('ranks', {}), default=sched.get('default', 50),
                             timer_rank=sched.get('timer', 50))
    if k == 'delay':
        return V.DelayChooser(sched['node'], sched.get('after', 0), sched.get('what', 'body'))
    raise ValueError(sched)


CPU_BUDGET_S = int(os.environ.get('VK_CPU_BUDGET', '15'))


class CpuBudgetExceeded(KeyboardInterrupt):
    """derives from KeyboardInterrupt: asyncio re-raises it out of Task steps and callbacks instead of storing it"""
    pass


@contextlib.contextmanager
def cpu_budget(seconds):
    """raise CpuBudgetExceeded when the process has consumed `seconds` of CPU time inside the block (ITIMER_VIRTUAL
    counts user CPU time of this process only, so machine load or a suspended process never triggers it)"""
    if threading.current_thread() is not threading.main_thread():
        yield
        return

    def handler(signum, frame):
        raise CpuBudgetExceeded()

    old = signal.signal(signal.SIGVTALRM, handler)
    # periodic: the first expiry can be swallowed (raised inside a gc / weakref callback: 'Exception ignored in')
    signal.setitimer(signal.ITIMER_VIRTUAL, seconds, 0.5)
    try:
        yield
    finally:
        signal.setitimer(signal.ITIMER_VIRTUAL, 0)
        signal.signal(signal.SIGVTALRM, old)


class RunHandle:
    def __init__(self, rec, task, input_kwargs, input_kwargs_before):
        self.rec = rec
        self.task = task
        self.input_kwargs = input_kwargs
        self.input_kwargs_before = input_kwargs_before
        self.done_iter = None
        self.cancel_accepted = None

    @property
    def outcome(self):
        """('value', v) | ('error', exc) | ('raised', exc) | ('cancelled',) | ('pending',)"""
        t = self.task
        if not t.done():
            return ('pending',)
        if t.cancelled():
            return ('cancelled',)
        e = t.exception()
        if e is not None:
            return ('raised', e)
        r = t.result()
        if r.error is not None:
            return ('error', r.error, r.value)
        return ('value', r.value)

    @property
    def result(self):
        t = self.task
        if t.done() and not t.cancelled() and t.exception() is None:
            return t.result()
        return None


class Session:
    """One virtual loop; any number of (possibly overlapping) runs."""

    def __init__(self, chooser=None, max_iters=20000, install_pools=True):
        from ml_pipeline_engine.parallelism import process_pool_registry
        from ml_pipeline_engine.parallelism import threads_pool_registry

        self.loop = V.VirtualLoop(chooser, max_iters)
        self.loop.seq_fn = R.next_seq
        self.handles = []
        self._regs = (threads_pool_registry, process_pool_registry)
        self._saved = (threads_pool_registry._pool_executor, process_pool_registry._pool_executor,
                       process_pool_registry._process_manager)
        if install_pools:
            threads_pool_registry._pool_executor = V.FakeExecutor(self.loop, 'thread', self._label)
            process_pool_registry._pool_executor = V.FakeExecutor(self.loop, 'process', self._label)
            process_pool_registry._process_manager = _FakeManager()
        self.status = None
        self.closed = False

    def _label(self, kind, fn, pre):
        run = R.RUN.get()
        if pre is None:
            # before fn runs: reserve the sequence number (it precedes the body's) and remember the trace length
            return (R.next_seq(), len(run.trace) if run is not None else 0)
        seq, n0 = pre
        tag = run.tag if run is not None else None
        nid = None
        if run is not None:
            for e in run.trace[n0:]:
                if e['kind'] == 'body':
                    nid = e['node']
                    break
        if nid is None:
            f = getattr(fn, 'func', fn)
            nid = getattr(getattr(f, '__self__', None), '_vk_id', None)
        return ('exec', tag, nid, seq)

    def start_run(self, compiled, chart, variant, tag='r0', pipeline_id=None, input_kwargs=None, delay_iters=0):
        rec = R.RunRec(tag, compiled.program, variant, loop=self.loop, rec_start_of=compiled.rec_start_of)
        if input_kwargs is None:
            input_kwargs = {'x': variant.get('x', 0), 'tag': tag}
        before = copy.deepcopy(input_kwargs)

        async def wrapper():
            R.RUN.set(rec)
            try:
                return await chart.run(pipeline_id=pipeline_id or f'pid-{tag}', input_kwargs=input_kwargs)
            finally:
                rec.end_seq = R.next_seq()  # the moment run() returned or raised
                rec.end_pending = len(self.loop.pending)

        task = self.loop.create_task(wrapper(), name=f'MAIN-{tag}')
        h = RunHandle(rec, task, input_kwargs, before)
        task.add_done_callback(lambda t: setattr(h, 'done_iter', self.loop.iters))
        self.loop.mains.append(task)
        self.handles.append(h)
        return h

    def cancel_at(self, handle, iteration):
        def inject():
            # True: the task was not done yet, so CancelledError is thrown into chart.run at its next step
            handle.cancel_accepted = handle.task.cancel()

        self.loop.at_iter[iteration] = inject

    def drive(self):
        asyncio.set_event_loop(None)
        try:
            with cpu_budget(CPU_BUDGET_S):
                self.status = self.loop.drive()
        except CpuBudgetExceeded:
            # one engine run normally costs milliseconds of CPU; the step budget bounds loop iterations, this bounds a
            # single callback that never returns (e.g. an endless loop inside the engine). CPU time, not wall clock.
            self.status = 'cpu-limit'
        except BaseException as e:  # noqa: BLE001 - e.g. Fatal escaping through a callback
            self.status = 'loop-raised'
            self.loop_exc = e
        return self.status

    def leftovers(self):
        """tasks created during the session that are still not done"""
        return [t for t in self.loop.created_tasks if not t.done()]

    def close(self):
        if self.closed:
            return
        self.closed = True
        try:
            try:
                with cpu_budget(5):
                    self.loop.shutdown_case()
            except CpuBudgetExceeded:
                # a runaway callback does not let the cancelled tasks finish: drop everything
                self.loop._ready.clear()
                self.loop._scheduled.clear()
                if not self.loop.is_closed():
                    try:
                        self.loop.close()
                    except BaseException:  # noqa: BLE001
                        pass
        finally:
            t, p = self._regs
            t._pool_executor, p._pool_executor, p._process_manager = self._saved


class _FakeManager:
    def shutdown(self):
        pass
