"""Runtime used by generated node bodies, recording event managers and recording stores.

Everything observed is attributed to a run through a ContextVar set by the wrapper task that calls
chart.run (tasks the engine creates inherit the context; the fake executor runs bodies inside the
submitting context).
"""
import contextvars
import enum
import hashlib
import itertools
import os

RUN = contextvars.ContextVar('vk_run', default=None)

_seq = itertools.count(1)


def next_seq():
    return next(_seq)


class NodeFail(Exception):
    pass


class ErrA(NodeFail):
    pass


class ErrA2(ErrA):
    """a subclass: matches a retry policy configured with ErrA"""


class ErrB(NodeFail):
    pass


class ErrC(NodeFail):
    pass


class Fatal(BaseException):
    """the only non-Exception raised by generated bodies"""


class ScratchCorrupted(Exception):
    """a body keeps working state on `self` across an await (as user nodes do); another execution touched it"""


class CollabErr(Exception):
    """raised by event managers / stores according to their raise plan"""


EXC = {'ErrA': ErrA, 'ErrA2': ErrA2, 'ErrB': ErrB, 'ErrC': ErrC, 'Fatal': Fatal}
EXC_CONFIGURABLE = dict(EXC, NodeFail=NodeFail)


def exc_matches(outcome, configured):
    """does the exception raised for `outcome` match a retry policy configured with these class names (isinstance
    semantics of an `except` clause)"""
    return any(issubclass(EXC[outcome], EXC_CONFIGURABLE[c]) for c in configured)


def is_value(v):
    return isinstance(v, tuple) and len(v) == 4 and v[0] == 'v'


def value_tags(v):
    return v[3] if is_value(v) else ()


def _key(k):
    # the engine passes additional_data under a str-Enum key, which equals the plain string
    return k.value if isinstance(k, enum.Enum) else str(k)


def canon(v):
    if is_value(v):
        return ('v', v[1], v[2], v[3])
    if isinstance(v, BaseException):
        return ('EXC', type(v).__name__, str(v))
    if isinstance(v, dict):
        return tuple(sorted((_key(k), canon(x)) for k, x in v.items()))
    if isinstance(v, (list, tuple)):
        return tuple(canon(x) for x in v)
    return repr(v)


def kwargs_digest(nid, kwargs, salt=''):
    s = repr((salt, nid, tuple(sorted((_key(k), canon(v)) for k, v in kwargs.items()))))
    return hashlib.sha1(s.encode()).hexdigest()[:10]


def merge_tags(nid, kwargs, declares_additional_data):
    tags = {}
    for k, v in kwargs.items():
        if k == 'additional_data':
            continue
        for s, it in value_tags(v):
            if tags.get(s, -1) < it:
                tags[s] = it
    if declares_additional_data:
        ad = kwargs.get('additional_data')
        tags[nid] = ad if isinstance(ad, int) and not isinstance(ad, bool) else 0
    return tuple(sorted(tags.items()))


FALSY = {'none': None, 'zero': 0, 'empty': '', 'false': False}


def pure_result(nid, nspec, beh, kwargs, rec_start=None):
    """The value a body returns when it does not raise: a pure function of (node, kwargs).
    Returns ('rec', data) | ('val', value)."""
    tags = merge_tags(nid, kwargs, bool(nspec.get('additional_data')))
    if rec_start is not None and 'rec_n' in beh:
        it = dict(tags).get(rec_start, 0)
        if it < beh['rec_n']:
            if beh.get('rec_data') == 'zero':
                return ('rec', 0)
            if beh.get('rec_data') == 'none_after_first':
                return ('rec', None if it >= 1 else 1)
            return ('rec', it + 1)
    if 'labels' in beh:
        # the label depends on the iteration the arguments belong to (switch nodes inside recurrent subgraphs)
        it = max([t for _, t in tags], default=0)
        return ('val', beh['labels'][min(it, len(beh['labels']) - 1)])
    if 'label' in beh:
        return ('val', beh['label'])
    kind = beh.get('value', 'prov')
    if kind in FALSY:
        return ('val', FALSY[kind])
    if kind == 'list':
        return ('val', [])
    return ('val', ('v', nid, kwargs_digest(nid, kwargs), tags))


def default_value(nid, nspec, kwargs):
    tags = merge_tags(nid, kwargs, bool(nspec.get('additional_data')))
    return ('v', nid, 'D' + kwargs_digest(nid, kwargs, 'default'), tags)


def outcome_at(beh, inv):
    outs = beh.get('outcomes') or []
    if inv - 1 < len(outs):
        return outs[inv - 1]
    return beh.get('tail', 'ok')


class RunRec:
    """per-run record; everything generated code observes goes here"""

    def __init__(self, tag, program, variant, loop=None, rec_start_of=None):
        self.tag = tag
        self.program = program
        self.nodes = {n['id']: n for n in program['nodes']}
        self.variant = variant
        self.beh = variant.get('nodes', {})
        self.loop = loop
        self.rec_start_of = rec_start_of or {}
        self.counts = {}
        self.trace = []  # dicts: kind=body|default|event|save|deliver
        self.raised = []  # exception instances raised by bodies (identity matters)
        self.ev_counts = {}
        self.save_counts = {}
        self.saved_ids = set()
        self.file = None  # for real worker processes: O_APPEND trace file
        self.pid = os.getpid()
        self.end_seq = None
        self.end_pending = 0

    def now(self):
        return self.loop.time() if self.loop is not None else 0.0

    def rec(self, **kw):
        kw['seq'] = next_seq()
        kw['t'] = self.now()
        kw['run'] = self.tag
        self.trace.append(kw)
        return kw


# Real executor threads and forked worker processes do not inherit the ContextVar (loop.run_in_executor does not
# copy the context): real-pool checks run one run at a time and publish it here before the pools are created.
CURRENT = None


class _Stateless:
    """behaviour when no run record is reachable (worker processes forked before the case was known): every node
    returns its provenance value; invocations are appended to the O_APPEND file named by VK_TRACE_FILE"""

    tag = 'stateless'
    loop = None
    beh = {}
    rec_start_of = {}
    pid = None
    file = None

    def __init__(self):
        self.counts = {}
        self.trace = []
        self.raised = []
        self.nodes = _AnyNode()

    def now(self):
        return 0.0

    def rec(self, **kw):
        kw['seq'] = next_seq()
        kw['t'] = 0.0
        kw['run'] = self.tag
        return kw


class _AnyNode(dict):
    def __missing__(self, key):
        return {'id': key, 'mode': 'thread', 'params': []}


def _run():
    r = RUN.get()
    if r is None:
        r = CURRENT
    if r is None:
        r = _Stateless()
    return r


def _trace_to_file(run, nid):
    path = run.file or os.environ.get('VK_TRACE_FILE')
    if path and (run.pid is None or run.pid != os.getpid()):
        fd = os.open(path, os.O_WRONLY | os.O_APPEND | os.O_CREAT)
        try:
            os.write(fd, f'{nid}\n'.encode())
        finally:
            os.close(fd)


def _enter(self_, kwargs):
    run = _run()
    nid = self_._vk_id
    inv = run.counts.get(nid, 0) + 1
    run.counts[nid] = inv
    ent = run.rec(kind='body', node=nid, inv=inv, kwargs=dict(kwargs), end=None, outcome=None)
    _trace_to_file(run, nid)
    return run, nid, inv, ent


def _finish(run, self_, nid, inv, ent, kwargs):
    nspec = getattr(self_, '_vk_spec', None) or run.nodes.get(nid) or {'id': nid, 'mode': 'thread', 'params': []}
    beh = getattr(self_, '_vk_beh', None)
    rec_start = run.rec_start_of.get(nid)
    if beh is None:
        beh = run.beh.get(nid, {})
    else:
        rec_start = getattr(self_, '_vk_rec_start', None)
    out = outcome_at(beh, inv)
    ent['end'] = next_seq()
    ent['t_end'] = run.now()
    if out != 'ok':
        exc = EXC[out](f'{nid}#{inv}')
        run.raised.append((nid, inv, exc))
        ent['outcome'] = out
        ent['exc'] = exc
        raise exc
    kind, v = pure_result(nid, nspec, beh, kwargs, rec_start)
    if kind == 'rec':
        ent['outcome'] = 'rec'
        ent['value'] = ('REC', v)
        return self_.next_iteration(v)
    ent['outcome'] = 'ok'
    ent['value'] = v
    return v


def body(self_, kwargs):
    run, nid, inv, ent = _enter(self_, kwargs)
    rv = getattr(run, 'rendezvous', None)
    if rv is not None and nid in rv.group:
        rv.enter_sync(nid)  # real-thread runs (C06): wait, untimed, until every sibling of the group is in its body
    return _finish(run, self_, nid, inv, ent, kwargs)


async def abody(self_, kwargs):
    run, nid, inv, ent = _enter(self_, kwargs)
    rv = getattr(run, 'rendezvous', None)
    if rv is not None and nid in rv.group:
        await rv.enter_async(nid)
    if (run.nodes.get(nid) or {}).get('mode') == 'gated' and run.loop is not None and hasattr(run.loop, 'add_external'):
        from verifkit.vloop import Gate

        # like a user node that keeps intermediate state on `self` while it awaits I/O
        token = (run.tag, ent['seq'])
        self_._vk_scratch = token
        await Gate(run.loop, ('gate', run.tag, nid, ent['seq']))
        if getattr(self_, '_vk_scratch', None) != token:
            ent['end'] = next_seq()
            ent['outcome'] = 'corrupted'
            raise ScratchCorrupted(f'{nid}: state kept on self by run {run.tag} was overwritten by '
                                   f'{getattr(self_, "_vk_scratch", None)}')
    return _finish(run, self_, nid, inv, ent, kwargs)


def default(self_, kwargs):
    run = _run()
    nid = self_._vk_id
    v = default_value(nid, run.nodes.get(nid) or {'id': nid}, kwargs)
    run.rec(kind='default', node=nid, kwargs=dict(kwargs), value=v)
    return v


# ----------------------------------------------------------------------------------------------
# collaborators


def make_event_manager(idx, gated=False, raise_plan=None, hooks=('on_pipeline_start', 'on_pipeline_complete',
                                                                 'on_node_start', 'on_node_complete')):
    """raise_plan: {'hook:occurrence': True} -> raises CollabErr at that occurrence (1-based, per run)"""
    raise_plan = raise_plan or {}

    async def _hook(name, node_id=None, **payload):
        run = RUN.get()
        if run is None:
            return
        key = (idx, name)
        occ = run.ev_counts.get(key, 0) + 1
        run.ev_counts[key] = occ
        ent = run.rec(kind='event', mgr=idx, hook=name, node=node_id, occ=occ, done=None, **payload)
        if gated and run.loop is not None and hasattr(run.loop, 'add_external'):
            from verifkit.vloop import Gate

            await Gate(run.loop, ('ev', run.tag, node_id or name, next_seq()))
        ent['done'] = next_seq()  # the callback has returned (stays None if the callback was cancelled inside)
        if raise_plan.get(f'{name}:{occ}'):
            raise CollabErr(f'event manager {idx} {name}#{occ}')

    ns = {}
    if 'on_pipeline_start' in hooks:
        async def on_pipeline_start(self, ctx):
            await _hook('on_pipeline_start')
        ns['on_pipeline_start'] = on_pipeline_start
    if 'on_pipeline_complete' in hooks:
        async def on_pipeline_complete(self, ctx, result):
            await _hook('on_pipeline_complete', result=result)
        ns['on_pipeline_complete'] = on_pipeline_complete
    if 'on_node_start' in hooks:
        async def on_node_start(self, ctx, node_id):
            await _hook('on_node_start', node_id=node_id)
        ns['on_node_start'] = on_node_start
    if 'on_node_complete' in hooks:
        async def on_node_complete(self, ctx, node_id, error):
            await _hook('on_node_complete', node_id=node_id, error=error)
        ns['on_node_complete'] = on_node_complete
    return type(f'RecordingEventManager{idx}', (), ns)


def make_store(gated=False, raise_plan=None, write_once=True):
    from ml_pipeline_engine.artifact_store.errors import ArtifactAlreadyExists
    from ml_pipeline_engine.artifact_store.errors import ArtifactDoesNotExist
    from ml_pipeline_engine.artifact_store.store.base import ArtifactStore

    raise_plan = raise_plan or {}

    class RecordingStore(ArtifactStore):
        def __init__(self, ctx, *a, **k):
            super().__init__(ctx)
            self._data = {}

        async def save(self, node_id, data):
            run = RUN.get()
            occ = 0
            ent = None
            if run is not None:
                occ = run.save_counts.get('n', 0) + 1
                run.save_counts['n'] = occ
                ent = run.rec(kind='save', node=node_id, value=data, occ=occ, done=None)
                if gated and run.loop is not None and hasattr(run.loop, 'add_external'):
                    from verifkit.vloop import Gate

                    await Gate(run.loop, ('save', run.tag, node_id, next_seq()))
            if raise_plan.get(f'save:{occ}'):
                raise CollabErr(f'store save#{occ}')
            if write_once and node_id in self._data:
                raise ArtifactAlreadyExists(node_id)
            self._data[node_id] = data
            if ent is not None:
                ent['done'] = next_seq()  # the value is stored (stays None if the call was cancelled inside)

        async def load(self, node_id):
            if node_id not in self._data:
                raise ArtifactDoesNotExist(node_id)
            return self._data[node_id]

    return RecordingStore
