"""Development tool: run one saved case with full trace."""
import sys, os, json, logging
sys.path.insert(0, os.path.dirname(os.path.dirname(os.path.abspath(__file__))))
import verifkit; verifkit.ensure_engine()
from verifkit import engine as E, ref as REF, oracles as O, spec as S, runtime as R
c = json.load(open(sys.argv[1]))
prog, var, sched = c['program'], c['variant'], c.get('sched')
for l in S.compact(prog, var): print(l)
r = REF.reference(prog, var)
print('REF', r['ok'], R.canon(r['value']) if r['ok'] else r['causes'], 'ambiguous', r['ambiguous'])
print('REF invocations', {k: [(i['epoch'], i['attempt'], i['outcome']) for i in v] for k, v in r['invocations'].items()})
if len(sys.argv) > 2: logging.disable(logging.NOTSET); logging.basicConfig(level=logging.DEBUG)
o = E.run_once(prog, var, sched, collab=c.get('collab'))
print(o.status, o.outcome, 'left', o.leftovers, 'fires', o.fire_log)
for e in o.trace: print('  ', {k: (R.canon(v) if k in ('kwargs','value') else v) for k, v in e.items() if k in ('kind', 'node', 'inv', 'kwargs', 'outcome', 'hook', 'seq', 'value')})
for v in O.oracle_outcome(o, r) + O.oracle_executed(o, r) + O.oracle_kwargs(o, r) + O.oracle_kwargs_model_free(o, prog): print('VIOL', v)
