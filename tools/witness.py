"""Development tool: for each fix commit in /repo, build HEAD-with-that-fix-reverted in a scratch worktree, find a
witness with the registered checks, verify it passes on HEAD, and store it under replays/regress/."""
import json, os, subprocess, sys, shutil, glob
VERIF = os.path.dirname(os.path.dirname(os.path.abspath(__file__)))
PLAN = [
 # (commit subject prefix, short name, candidate checks)
 ('fix: do not ask cancelled helper tasks', 'cancelled-helper', ['C05', 'C10', 'C13', 'C01']),
 ("fix: do not write additional_data into the caller", 'input-kwargs', ['C07']),
 ('fix: keep additional_data of a recurrent subgraph per run', 'additional-data', ['C07', 'C08']),
 ('fix: do not clear is_oneof_child', 'oneof-child-flag', ['C07', 'C10', 'C08']),
 ('fix: a switch must not wait for its case nodes', 'switch-waits-cases', ['C09', 'C02']),
 ('fix: notify the consumers of a switch', 'switch-notify', ['C09', 'C02']),
 ('fix: fail the run when a switch node returns a label', 'unknown-label', ['C09', 'C02', 'C05']),
 ('fix: a OneOf candidate that returns None', 'none-candidate', ['C10', 'C02']),
 ('fix: wake the OneOf up', 'oneof-wake', ['C10', 'C02']),
 ('fix: a duplicated request for a node', 'duplicate-request', ['C11', 'C19', 'C03', 'C04']),
 ('fix: never pass the stored error', 'dependency-error', ['C10', 'C03', 'C05']),
 ('fix: a failure inside the selected case', 'switch-in-candidate', ['C10', 'C02', 'C05']),
 ('fix: do not save a next-iteration request', 'save-recurrent', ['C19']),
 ('fix: the viewer accepts node classes', 'viewer-node-type', ['C20']),
 ('fix: the filesystem artifact store can save and load artifacts in the JSON', 'fs-json', ['C18']),
 ('fix: the filesystem artifact store looks artifacts up', 'fs-exact-name', ['C18']),
 ('fix: a failed save does not leave', 'fs-failed-save', ['C18']),
]
log = subprocess.check_output(['git', '-C', '/repo', 'log', '--format=%H %s']).decode().splitlines()
only = sys.argv[1:] 
results = {}
for subj, name, checks in PLAN:
    if only and name not in only: continue
    sha = [l.split()[0] for l in log if l.split(' ', 1)[1].startswith(subj)]
    assert len(sha) == 1, (subj, sha)
    sha = sha[0]
    wt = f'/tmp/wt_rev_{name}'
    subprocess.run(['git', '-C', '/repo', 'worktree', 'remove', '--force', wt], capture_output=True)
    subprocess.check_call(['git', '-C', '/repo', 'worktree', 'add', '-q', '--detach', wt, 'HEAD'])
    r = subprocess.run(['git', '-C', wt, 'revert', '--no-commit', sha], capture_output=True, text=True)
    if r.returncode != 0:
        results[name] = 'REVERT-CONFLICT'
        print(name, 'revert conflict'); subprocess.run(['git', '-C', '/repo', 'worktree', 'remove', '--force', wt]); continue
    found = None
    for c in checks:
        for seed in ('1', '2', '3'):
            env = dict(os.environ, VERIF_REPO=wt, VERIF_SEED=seed)
            p = subprocess.run(['/venv/bin/python', '-m', 'verifkit', 'check', c], cwd=VERIF, env=env, capture_output=True, text=True)
            lines = [l for l in p.stdout.splitlines() if l.startswith('VIOLATION')]
            if lines:
                path = lines[0].split('replay=')[1]
                # must pass on HEAD
                q = subprocess.run(['/venv/bin/python', '-m', 'verifkit', 'replay', path], cwd=VERIF, capture_output=True, text=True)
                if q.returncode == 0:
                    dst = os.path.join(VERIF, 'replays', 'regress', f'{c}-fix-{name}.json')
                    shutil.copy(path, dst)
                    found = (c, seed, dst, p.stdout.splitlines()[-2][:160])
                    break
                else:
                    print(name, c, 'witness also fails on HEAD?!', q.stdout[-300:])
        if found: break
    results[name] = found or 'NOT-DETECTED'
    print(name, sha[:7], results[name])
    subprocess.run(['git', '-C', '/repo', 'worktree', 'remove', '--force', wt])
    # restore evidence files touched by the runs
subprocess.run(['git', '-C', VERIF, 'checkout', '--', 'evidence'])
json.dump({k: (v if isinstance(v, str) else list(v)) for k, v in results.items()}, open('/tmp/witness_results.json', 'w'), indent=1)
