"""Development tool: markdown rows of the detection matrix (DESIGN.md section 10) from seeded/*/meta.json."""
import json, os, re
VERIF = os.path.dirname(os.path.dirname(os.path.abspath(__file__)))
for d in sorted(os.listdir(os.path.join(VERIF, 'seeded'))):
    sd = os.path.join(VERIF, 'seeded', d)
    meta = json.load(open(os.path.join(sd, 'meta.json')))
    files = sorted({re.sub(r'^ml_pipeline_(engine|viewer)/', lambda m: '' if m.group(1) == 'engine' else 'viewer/', l[6:].strip())
                    for l in open(os.path.join(sd, 'patch.diff')) if l.startswith('+++ b/')})
    own = meta['property']
    caught = meta.get('caught_by_quick_checks') or []
    cells = ', '.join(f'**{c}**' if c == own else c for c in caught) or '— (not detected, see below)'
    print(f"| {d} | {', '.join(files)} | {cells} |")
