"""Regenerates MANIFEST.json from the registered checks (kept in the repo as a plain file; run by hand)."""
import json, os, sys
sys.path.insert(0, os.path.dirname(os.path.dirname(os.path.abspath(__file__))))
import verifkit; verifkit.ensure_engine()
from verifkit.checks import all_checks

LEVEL_TEXT = {
 'C01': ('exploration', 'generated programs x behaviour variants x owned schedules; metamorphic (outcome equal under any two schedules) and reference-interpreter oracles; thorough adds 16 shards and depth-first enumeration of ALL schedules of small programs', 'hypothesis PBT, schedule-owning virtual event loop, reference interpreter + metamorphic'),
 'C02': ('exploration', 'exact per-schedule deadlock verdicts on generated programs with faults placed anywhere (nodes, event managers, store); never a wall-clock timeout', 'hypothesis PBT with fault injection on a virtual event loop (exact deadlock verdict)'),
 'C03': ('exploration', 'every body invocation of every generated run is checked against provenance-encoding reference kwargs and model-free rules', 'hypothesis PBT, provenance digests, reference interpreter'),
 'C04': ('exploration', 'per-node invocation counts compared with the reference on programs biased to sharing across scopes', 'hypothesis PBT, invocation counting vs reference model'),
 'C05': ('fault_enumeration', 'generated failing-node sets (thorough: all subsets for small programs) x schedules; verdict / value / cause identity against the reference', 'hypothesis PBT + exhaustive failing-subset enumeration, reference oracle'),
 'C06': ('exploration', 'for every depth of every generated layered DAG, completions of that depth are withheld until quiescence and all siblings must have started; the same DAGs on a real thread pool with an untimed rendezvous of the widest depth (verdict: process quiescence)', 'hypothesis PBT with hold-depth schedules on the virtual loop; real-thread rendezvous with a state-based deadlock verdict'),
 'C07': ('exploration', 'stateful model-based testing: histories of runs / cancelled runs on one chart compared with fresh charts, deep snapshots of shared state', 'hypothesis stateful (RuleBasedStateMachine), differential vs fresh chart + snapshot invariants'),
 'C08': ('exploration', 'k overlapping runs on one virtual loop under one interleaved generated schedule, each compared with its solo run and the reference', 'hypothesis PBT, interleaved schedules, differential vs solo run'),
 'C09': ('exploration', 'generated switch programs (nested / shared / cases that are ancestors) with declared and unknown labels; routing, laziness and reuse against the reference', 'hypothesis PBT, reference interpreter (demand-driven laziness oracle)'),
 'C10': ('exploration', 'generated one-of programs with failures at any depth; winner, laziness, candidate order, containment and exhaustion against the reference', 'hypothesis PBT, reference interpreter + trace-order oracle'),
 'C11': ('exploration', 'generated recurrent subgraphs with requested iterations 0..max+1; per-epoch invocation log equals the reference', 'hypothesis PBT, reference interpreter with epochs'),
 'C12': ('fault_enumeration', 'sampled retry settings in random pipelines plus enumeration of every configuration x every per-attempt outcome sequence on fixed hosts; virtual clock makes delays exact', 'hypothesis PBT + exhaustive outcome-sequence enumeration, virtual clock'),
 'C13': ('fault_enumeration', 'cancel injected at every loop step of generated runs (quick: <=10 points per case); loop stepped to quiescence without deliveries; leftovers / late starts are violations', 'crash-point enumeration (cancel at every loop iteration) on the virtual loop'),
 'C14': ('exploration', 'grammar check over the event history observed by recording (possibly gated) event managers on generated runs', 'hypothesis PBT, history-grammar invariant'),
 'C15': ('translation_validation', 'build_dag output compared for equality with an independent graph construction from the spec, plus declaration-order permutation', 'hypothesis PBT, independent re-implementation (differential) + metamorphic permutation'),
 'C16': ('fault_enumeration', 'every applicable single-defect mutation (8 kinds x every reachable node) of generated valid programs must raise the paired error class', 'hypothesis PBT + exhaustive single-defect mutation enumeration'),
 'C17': ('exploration', 'mode assignments under fake executors (equal outcomes), a sample on real thread/process pools, and eight pool-registry states / histories (incl. a chart reused after a pool shutdown) set up through the public API in subprocesses', 'hypothesis PBT, differential across execution modes, real pools sample, registry-state enumeration'),
 'C18': ('exploration', 'stateful model-based testing of the filesystem store against a dict over adversarial ids, both formats, several contexts, two store objects per key space', 'hypothesis stateful (RuleBasedStateMachine) vs dict model'),
 'C19': ('exploration', 'generated runs with a recording write-once store (immediate or suspending); completed saves compared with the reference finals', 'hypothesis PBT, recording write-once store, reference finals'),
 'C20': ('translation_validation', 'viewer config of generated file-backed programs compared with the DAG node/edge sets and declared attributes; JSON round trip; DAG snapshot unchanged', 'hypothesis PBT, projection oracle + round-trip'),
}
NOTE = {
 'default': 'Trusted: CPython 3.12 BaseEventLoop._run_once as scheduler core; completions delivered at loop-iteration boundaries only; generator domain W1-W7 (DESIGN.md 2.1) minus known-finding shapes; reference interpreter = my reading of the docs (kept out of questions the docs leave open). Search, not proof: absence is never established.',
 'C15': 'Trusted: the independent expected-graph function (written from the spec, never from DAG.graph). Declarations inside W1-W7; parallel dependencies (F13) are a listed known finding.',
 'C16': 'Trusted: the defect emitter produces exactly one defect; un-annotated parameters of generic bases are hidden by build_node and not claimed.',
 'C17': 'Real-pool timing is sampled, not owned; wall-clock expiry on real pools is inconclusive, never a violation. The engine also asks for the thread pool for inline nodes; that direction is not asserted.',
 'C18': 'Trusted: the dict model; ids without path separators / NUL; JSON values finite, str keys.',
 'C20': 'importlib_resources (static file copying only) is stubbed when not installed.',
}
checks = all_checks()
out = {
 'version': 1,
 'setup_cmd': '/venv/bin/python -c "import hypothesis" 2>/dev/null || /venv/bin/pip install --no-index --find-links /opt/veriftools/wheels hypothesis',
 'hooks': {'guard': 'ML_PIPELINE_ENGINE_VERIF', 'enable': 'no source hooks: every observation is made through the public API, a custom event loop, the executor registries and generated node bodies', 'baseline_off_cmd': 'cd /repo && /venv/bin/python -m pytest -ra -q -p no:cacheprovider --timeout=900 --continue-on-collection-errors', 'source_commits': [], 'add_only': True},
 'engines': [{'name': 'verifkit', 'path': 'verifkit/', 'serves_properties': sorted(checks), 'kind_free_text': 'Hypothesis strategies for programs/variants/schedules/histories; schedule-owning virtual asyncio loop; reference dataflow interpreter; per-property oracles; sharded driver'}],
 'checks': [],
 'notes': 'python -m verifkit check <id> --tier quick|thorough (VERIF_SEED, VERIF_TIER honoured); replays under replays/, regression replays under replays/regress/, known findings in known_findings.json',
 'not_applicable': [],
}
for cid in sorted(checks):
    cat, text, tech = LEVEL_TEXT[cid]
    assert checks[cid].level == cat, (cid, checks[cid].level, cat)
    out['checks'].append({
        'property_id': cid,
        'quick_cmd': f'/venv/bin/python -m verifkit check {cid} --tier quick',
        'thorough_cmd': f'/venv/bin/python -m verifkit check {cid} --tier thorough',
        'evidence_file': f'evidence/{cid}.json',
        'replay_cmd_template': '/venv/bin/python -m verifkit replay {path}',
        'engine': 'verifkit',
        'level_claimed': {'category': cat, 'text': text, 'design_ref': f'DESIGN.md section 5 ({cid})'},
        'level_note': NOTE.get(cid, NOTE['default']),
        'technique': tech,
    })
json.dump(out, open(os.path.join(os.path.dirname(os.path.dirname(os.path.abspath(__file__))), 'MANIFEST.json'), 'w'), indent=1)
print('written', len(out['checks']))
