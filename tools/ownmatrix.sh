#!/bin/bash
# Development tool: every seeded change x the quick check of ITS OWN property (VERIF_SEED=1), scratch worktrees.
cd "$(dirname "$0")/.."
out=/tmp/vk_own; rm -rf $out; mkdir -p $out
for d in seeded/C*; do s=$(basename $d); wt=/tmp/ow_$s; git -C /repo worktree remove --force $wt 2>/dev/null; git -C /repo worktree add -q --detach $wt HEAD && git -C $wt apply $(pwd)/$d/patch.diff || echo "APPLY-FAILED $s"; done
for d in seeded/C*; do s=$(basename $d); echo "$s ${s:0:3}"; done | \
  xargs -P ${JOBS:-6} -L 1 bash -c 'VERIF_REPO=/tmp/ow_$0 VERIF_SEED=${SEED:-1} /venv/bin/python -m verifkit check $1 > '$out'/$0.$1.log 2>&1; echo "$0 $1 rc=$?"' > $out/summary.txt
for d in seeded/C*; do s=$(basename $d); git -C /repo worktree remove --force /tmp/ow_$s; done
git checkout -- evidence 2>/dev/null
mkdir -p replays/dev; mv replays/*.json replays/dev/ 2>/dev/null
sort $out/summary.txt | awk '{print}' | grep -v "rc=1" ; echo "caught: $(grep -c 'rc=1' $out/summary.txt) of $(wc -l < $out/summary.txt)"
