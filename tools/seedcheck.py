"""Development tool: apply a seeded change to /repo, run checks, undo. usage: seedcheck.py <seeded dir> [check ids...]"""
import subprocess, sys, os, json
VERIF = os.path.dirname(os.path.dirname(os.path.abspath(__file__)))
d = sys.argv[1]
checks = sys.argv[2:] or ['C%02d' % i for i in range(1, 21)]
seeds = os.environ.get('SEEDS', '1').split()
patch = os.path.abspath(os.path.join(d, 'patch.diff'))
assert subprocess.run(['git', '-C', '/repo', 'status', '--porcelain', '--untracked-files=no'], capture_output=True, text=True).stdout.strip() == '', 'repo dirty'
subprocess.check_call(['git', '-C', '/repo', 'apply', patch])
res = {}
try:
    procs = []
    for c in checks:
        for s in seeds:
            env = dict(os.environ, VERIF_SEED=s)
            procs.append((c, s, subprocess.Popen(['/venv/bin/python', '-m', 'verifkit', 'check', c], cwd=VERIF, env=env, stdout=subprocess.PIPE, stderr=subprocess.STDOUT, text=True)))
    for c, s, p in procs:
        out, _ = p.communicate()
        lines = out.strip().splitlines()
        viol = [l for l in lines if l.startswith('VIOLATION')]
        detail = [l for l in lines if l.startswith('  ')][:2]
        res.setdefault(c, []).append((s, p.returncode, detail[:1]))
        print(c, 'seed', s, 'rc', p.returncode, (detail[0][:200] if detail else lines[-1][:120]))
finally:
    subprocess.check_call(['git', '-C', '/repo', 'checkout', '--', '.'])
    subprocess.run(['git', '-C', VERIF, 'checkout', '--', 'evidence'])
caught = sorted(c for c, v in res.items() if any(rc == 1 for _, rc, _ in v))
print('CAUGHT BY:', caught)
