"""Development tool: apply a seeded change to /repo, run checks, undo. usage: seedcheck.py <seeded dir> [check ids...]"""
import subprocess, sys, os, json
VERIF = os.path.dirname(os.path.dirname(os.path.abspath(__file__)))
d = sys.argv[1]
checks = sys.argv[2:] or ['C%02d' % i for i in range(1, 21)]
seeds = os.environ.get('SEEDS', '1').split()
patch = os.path.abspath(os.path.join(d, 'patch.diff'))
# the change is applied in a scratch worktree (never in /repo itself: background runs may be using it)
wt = '/tmp/sc_' + os.path.basename(os.path.normpath(d))
subprocess.run(['git', '-C', '/repo', 'worktree', 'remove', '--force', wt], capture_output=True)
subprocess.check_call(['git', '-C', '/repo', 'worktree', 'add', '-q', '--detach', wt, 'HEAD'])
subprocess.check_call(['git', '-C', wt, 'apply', patch])
res = {}
try:
    procs = []
    for c in checks:
        for s in seeds:
            env = dict(os.environ, VERIF_SEED=s, VERIF_REPO=wt)
            procs.append((c, s, subprocess.Popen(['/venv/bin/python', '-m', 'verifkit', 'check', c], cwd=VERIF, env=env, stdout=subprocess.PIPE, stderr=subprocess.STDOUT, text=True)))
    for c, s, p in procs:
        out, _ = p.communicate()
        lines = out.strip().splitlines()
        viol = [l for l in lines if l.startswith('VIOLATION')]
        detail = [l for l in lines if l.startswith('  ')][:2]
        res.setdefault(c, []).append((s, p.returncode, detail[:1]))
        print(c, 'seed', s, 'rc', p.returncode, (detail[0][:200] if detail else lines[-1][:120]))
finally:
    subprocess.run(['git', '-C', '/repo', 'worktree', 'remove', '--force', wt])
    subprocess.run(['git', '-C', VERIF, 'checkout', '--', 'evidence'])
caught = sorted(c for c, v in res.items() if any(rc == 1 for _, rc, _ in v))
print('CAUGHT BY:', caught)
