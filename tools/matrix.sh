#!/bin/bash
# Development tool: every seeded change x every quick check (VERIF_SEED=1), each seeded tree in its own scratch worktree.
cd "$(dirname "$0")/.."
out=/tmp/vk_matrix; rm -rf $out; mkdir -p $out
for d in seeded/C*; do s=$(basename $d); wt=/tmp/mx_$s; git -C /repo worktree remove --force $wt 2>/dev/null; git -C /repo worktree add -q --detach $wt HEAD && git -C $wt apply $(pwd)/$d/patch.diff; done
for d in seeded/C*; do s=$(basename $d); for c in C01 C02 C03 C04 C05 C06 C07 C08 C09 C10 C11 C12 C13 C14 C15 C16 C17 C18 C19 C20; do echo "$s $c"; done; done | \
  xargs -P ${JOBS:-15} -L 1 bash -c 'VERIF_REPO=/tmp/mx_$0 VERIF_SEED=${SEED:-1} /venv/bin/python -m verifkit check $1 > '$out'/$0.$1.log 2>&1; echo "$0 $1 rc=$?"' > $out/summary.txt
for d in seeded/C*; do s=$(basename $d); git -C /repo worktree remove --force /tmp/mx_$s; done
git checkout -- evidence
mkdir -p replays/dev; mv replays/*.json replays/dev/ 2>/dev/null
python3 - <<'PY'
import collections, json
m = collections.defaultdict(list); err = []
for l in open('/tmp/vk_matrix/summary.txt'):
    s, c, rc = l.split(); rc = rc.split('=')[1]
    if rc == '1': m[s].append(c)
    elif rc != '0': err.append((s, c, rc))
for s in sorted(set(x.split()[0] for x in open('/tmp/vk_matrix/summary.txt'))): print(s, 'caught by', sorted(m[s]))
print('harness errors', err)
json.dump({k: sorted(v) for k, v in m.items()}, open('/tmp/caught.json', 'w'))
PY
