"""Development tool: confirm every seeded change in a scratch worktree and write meta.json."""
import json, os, subprocess, sys
VERIF = os.path.dirname(os.path.dirname(os.path.abspath(__file__)))
props = {json.loads(l)['id']: json.loads(l) for l in open(os.path.join(VERIF, 'properties.jsonl'))}
CAUGHT = json.load(open('/tmp/caught.json')) if os.path.exists('/tmp/caught.json') else {}
only = sys.argv[1:]
for d in sorted(os.listdir(os.path.join(VERIF, 'seeded'))):
    if only and d not in only: continue
    sd = os.path.join(VERIF, 'seeded', d)
    wt = f'/tmp/vs_{d}'
    subprocess.run(['git', '-C', '/repo', 'worktree', 'remove', '--force', wt], capture_output=True)
    subprocess.check_call(['git', '-C', '/repo', 'worktree', 'add', '-q', '--detach', wt, 'HEAD'])
    os.makedirs(os.path.join(wt, 'seed'), exist_ok=True)
    subprocess.check_call(['cp', os.path.join(sd, 'demo.py'), os.path.join(wt, 'seed', 'demo.py')])
    def demo():
        try:
            return subprocess.run(['/venv/bin/python', 'seed/demo.py'], cwd=wt, capture_output=True, text=True, timeout=600).returncode
        except subprocess.TimeoutExpired:
            return 'timeout'
    rc_clean = demo()
    subprocess.check_call(['git', '-C', wt, 'apply', os.path.join(sd, 'patch.diff')])
    rc_seeded = demo()
    t = subprocess.run(['/venv/bin/python', '-m', 'pytest', '-q', '-p', 'no:cacheprovider', '--timeout=900', '-q'], cwd=wt, capture_output=True, text=True)
    tail = t.stdout.strip().splitlines()[-1]
    files = subprocess.check_output(['git', '-C', wt, 'diff', '--stat'], text=True).strip().splitlines()[-1]
    subprocess.run(['git', '-C', '/repo', 'worktree', 'remove', '--force', wt])
    notes = open(os.path.join(sd, 'notes.md')).read()
    ok = rc_clean == 0 and rc_seeded not in (0,) and '62 passed' in tail
    meta = {
        'property': d[:3], 'title': props[d[:3]]['title'],
        'breaks': f'{d[:3]}: {props[d[:3]]["title"]}',
        'origin': 'written by a fresh sub-agent that saw only the property text and its own scratch worktree of /repo (nothing from /verif)',
        'needs_to_manifest': ' '.join(notes.split())[:900],
        'confirmed': {
            'base_commit': subprocess.check_output(['git', '-C', '/repo', 'rev-parse', '--short', 'HEAD'], text=True).strip(),
            'demo_on_unmodified_tree_exit': rc_clean, 'demo_with_change_exit': rc_seeded,
            'test_suite_with_change': tail, 'diffstat': files, 'all_confirmed': ok,
            'how': 'scratch worktree of /repo HEAD under /tmp (removed afterwards): demo.py run before and after `git apply patch.diff`, then the pinned pytest command',
        },
        'caught_by_quick_checks': CAUGHT.get(d),
    }
    json.dump(meta, open(os.path.join(sd, 'meta.json'), 'w'), indent=1)
    print(d, 'clean', rc_clean, 'seeded', rc_seeded, tail[-45:], 'OK' if ok else 'PROBLEM')
