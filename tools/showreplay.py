"""Development tool: show a replay file's case with per-schedule traces."""
import sys, os, json, logging
sys.path.insert(0, os.path.dirname(os.path.dirname(os.path.abspath(__file__))))
import verifkit; verifkit.ensure_engine()
from verifkit import engine as E, ref as REF, oracles as O, spec as S, runtime as R
rep = json.load(open(sys.argv[1])); c = rep['case']
prog, var = c['program'], c['variant']
for l in S.compact(prog, var): print(l)
print('violations', rep.get('violations'))
r = REF.reference(prog, var)
print('REF', r['ok'], R.canon(r['value']) if r['ok'] else r['causes'], 'ambiguous', r['ambiguous'])
print('REF invocations', {k: [(i['epoch'], i['attempt'], i['outcome']) for i in v] for k, v in r['invocations'].items()})
which = int(sys.argv[2]) if len(sys.argv) > 2 else 0
sched = ([None] + c.get('scheds', []))[which]
if len(sys.argv) > 3: logging.disable(logging.NOTSET); logging.basicConfig(level=logging.DEBUG)
o = E.run_once(prog, var, sched, collab=c.get('collab'))
print('sched', sched)
print(o.status, o.outcome, 'left', o.leftovers, 'fires', o.fire_log)
for e in o.trace: print('  ', {k: (R.canon(v) if k in ('kwargs','value') else v) for k, v in e.items() if k in ('kind', 'node', 'inv', 'kwargs', 'outcome', 'hook', 'seq', 'value')})
