#!/bin/bash
# Development tool: run every quick check at several seeds in parallel; print non-OK lines.
cd "$(dirname "$0")/.."
seeds="${SEEDS:-1 2 3}"
tier="${TIER:-quick}"
mkdir -p /tmp/vk_runall
for s in $seeds; do for c in C01 C02 C03 C04 C05 C06 C07 C08 C09 C10 C11 C12 C13 C14 C15 C16 C17 C18 C19 C20; do echo "$s $c"; done; done | \
  xargs -P ${JOBS:-14} -L 1 bash -c 'VERIF_SEED=$0 /venv/bin/python -m verifkit check $1 --tier '"$tier"' > /tmp/vk_runall/$1.$0.log 2>&1; echo "$1 seed=$0 rc=$? $(tail -1 /tmp/vk_runall/$1.$0.log)"'
