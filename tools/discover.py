"""Development tool: bucket anomalies found by the generic oracles (not a registered check)."""
import collections, os, sys, json
sys.path.insert(0, os.path.dirname(os.path.dirname(os.path.abspath(__file__))))
import verifkit; verifkit.ensure_engine()
from hypothesis import given, settings, seed, HealthCheck, Phase
from verifkit import gen as G, engine as E, ref as REF, oracles as O, spec as S, compile as C

feats = tuple(sys.argv[1].split(',')) if len(sys.argv) > 1 else G.ALL_FEATS
N = int(sys.argv[2]) if len(sys.argv) > 2 else 300
clean = (sys.argv[3] != 'wild') if len(sys.argv) > 3 else True
SEED = int(os.environ.get('VERIF_SEED', '1'))
buckets = collections.Counter(); examples = {}
stats = collections.Counter()

@seed(SEED)
@settings(max_examples=N, database=None, deadline=None, suppress_health_check=list(HealthCheck), phases=[Phase.generate])
@given(G.cases(feats=feats, clean=clean, n_scheds=3, max_nodes=int(os.environ.get("MAXN","8")), min_nodes=int(os.environ.get("MINN","2"))))
def t(case):
    prog, var = case['program'], case['variant']
    refres = REF.reference(prog, var)
    comp = C.compile_program(prog)
    stats['cases'] += 1
    stats['ref_ok'] += refres['ok']; stats['ambig'] += bool(refres['ambiguous'])
    for sched in [None] + case['scheds']:
        try:
            o = E.run_once(prog, var, sched, compiled=comp, refres=refres)
        except Exception as e:
            import traceback; traceback.print_exc()
            buckets[('HARNESS', type(e).__name__)] += 1; examples.setdefault(('HARNESS', type(e).__name__), (case, sched)); continue
        stats['runs'] += 1
        v = O.oracle_outcome(o, refres) + O.oracle_executed(o, refres) + O.oracle_kwargs(o, refres) + O.oracle_kwargs_model_free(o, prog)
        if o.leftovers: v.append(('leftover', str(o.leftovers)))
        for sym, det in v:
            buckets[sym] += 1
            if sym not in examples or len(examples[sym][0]['program']['nodes']) > len(prog['nodes']):
                examples[sym] = (case, sched, det)
t()
print(dict(stats))
for k, v in buckets.most_common(): print(v, k)
for k, e in examples.items():
    print('---', k, e[2] if len(e) > 2 else '')
    for l in S.compact(e[0]['program'], e[0]['variant']): print('    ', l)
    print('     sched', e[1])
os.makedirs('/tmp/disc', exist_ok=True)
for k, e in examples.items():
    json.dump({'program': e[0]['program'], 'variant': e[0]['variant'], 'sched': e[1], 'symptom': str(k), 'detail': e[2] if len(e) > 2 else ''}, open(f'/tmp/disc/{str(k).replace(":", "_").replace("/", "_")}.json', 'w'), indent=1)
