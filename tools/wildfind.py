"""Development tool: search the regions excluded by construction (wild profile) with MODEL-FREE oracles only."""
import collections, os, sys, json
sys.path.insert(0, os.path.dirname(os.path.dirname(os.path.abspath(__file__))))
import verifkit; verifkit.ensure_engine()
from hypothesis import given, settings, seed, HealthCheck, Phase
from verifkit import gen as G, engine as E, ref as REF, oracles as O, spec as S, compile as C, findings as F, runtime as R
feats = tuple(sys.argv[1].split(','))
N = int(sys.argv[2])
want = sys.argv[3] if len(sys.argv) > 3 else None
SEED = int(os.environ.get('VERIF_SEED', '1'))
buckets = collections.Counter(); examples = {}
@seed(SEED)
@settings(max_examples=N, database=None, deadline=None, suppress_health_check=list(HealthCheck), phases=[Phase.generate])
@given(G.cases(feats=feats, clean=False, n_scheds=5, min_nodes=3, max_nodes=8))
def t(case):
    prog, var = case['program'], case['variant']
    hits = F.structural_hits(prog)
    if want and want not in hits: return
    refres = REF.reference(prog, var)
    comp = C.compile_program(prog)
    obs = []
    for sched in [None] + case['scheds']:
        obs.append(E.run_once(prog, var, sched, compiled=comp, refres=refres))
    syms = []
    keys = {E.outcome_key(o) for o in obs}
    if len(keys) > 1: syms.append(('schedule-dependent-outcome', str(sorted(map(str, keys)))[:300]))
    for o in obs:
        for s, d in O.oracle_termination(o): syms.append((s, d[:200]))
        if o.outcome[0] in ('raised', 'cancelled') and not (o.outcome[0] == 'raised' and isinstance(o.outcome[1], R.Fatal)): syms.append(('escape', repr(o.outcome)))
        for s, d in O.oracle_kwargs_model_free(o, prog): syms.append((s, d[:200]))
    for s, d in set(syms):
        k = (tuple(sorted(hits)), s)
        buckets[k] += 1
        if k not in examples or len(examples[k][0]['program']['nodes']) > len(prog['nodes']):
            examples[k] = (case, d)
t()
for k, v in buckets.most_common(): print(v, k)
os.makedirs('/tmp/wild', exist_ok=True)
for k, (case, d) in examples.items():
    name = '_'.join(k[0]) + '__' + k[1]
    print('---', k, d)
    for l in S.compact(case['program'], case['variant']): print('    ', l)
    json.dump({'property': 'C01', 'case': case, 'detail': d}, open(f'/tmp/wild/{name}.json', 'w'), indent=1)
